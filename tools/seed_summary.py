#!/usr/bin/env python3
"""Summarise seeded/*/meta.json into the markdown table of DESIGN.md section 6 (printed to stdout)."""
import json, os, re, collections
V = os.path.dirname(os.path.dirname(os.path.abspath(__file__)))
rows = collections.OrderedDict()
for d in sorted(os.listdir(os.path.join(V, "seeded"))):
    mp = os.path.join(V, "seeded", d, "meta.json")
    if not os.path.exists(mp):
        continue
    m = json.load(open(mp)); cr = m.get("check_result") or {}
    prop = d.split("_")[0]
    out = cr.get("outcome", "not run")
    fl = cr.get("flagged") or []
    by = ""
    if fl:
        f = re.sub(r"\s+", " ", fl[0])
        mm = re.search(r"(verus/z3|kani/cbmc)\s+\w\s+(\S+)", f)
        by = f"{mm.group(1).split('/')[0]}: `{mm.group(2)}`" if mm else f[:60]
    elif cr.get("undecided"):
        by = "exit 2: " + re.sub(r"^UNDECIDED property=\w+ unit=", "", cr["undecided"][0])[:110]
    rows.setdefault(prop, []).append((d, out.split(" ")[0], by))
print("| property | seeds | caught | declined (exit 2) | missed | obligation that fired (first), or why declined |")
print("|---|---|---|---|---|---|")
tot = collections.Counter()
for prop, rs in rows.items():
    c = collections.Counter(o for _, o, _ in rs); tot.update(c)
    det = "; ".join(f"{d.split('_')[1]}: {by}" for d, o, by in rs)
    print(f"| {prop} | {len(rs)} | {c['caught']} | {c['declined']} | {c['MISSED']} | {det} |")
print(f"| **all** | {sum(tot.values())} | {tot['caught']} | {tot['declined']} | {tot['MISSED']} | |")

if __name__ == "__main__" and "--update-design" in __import__("sys").argv:
    import io, contextlib, subprocess, sys
    out = subprocess.run([sys.executable, __file__], capture_output=True, text=True).stdout
    p = os.path.join(V, "DESIGN.md"); s = open(p).read()
    a = s.index("<!-- SEEDS:BEGIN -->") + len("<!-- SEEDS:BEGIN -->"); b = s.index("<!-- SEEDS:END -->")
    open(p, "w").write(s[:a] + "\n" + out + s[b:])
