
// ---- anchor / alias names
pub open spec fn is_ws(b: u8) -> bool { b == 0x20 || b == 0x09 || b == 0x0A || b == 0x0D }
pub open spec fn is_term(b: u8) -> bool { is_ws(b) || b == 0x5B || b == 0x5D || b == 0x7B || b == 0x7D || b == 0x2C }
/// DEFINITION (the scalar loop): the first terminator at or after pos; a colon terminates only when followed by whitespace
pub open spec fn aend(t: Seq<u8>, pos: int) -> int
    decreases t.len() - pos
{
    if pos < 0 || pos >= t.len() { pos }
    else if is_term(t[pos]) { pos }
    else if t[pos] == 0x3A && pos + 1 < t.len() && is_ws(t[pos + 1]) { pos }
    else { aend(t, pos + 1) }
}
/// plain name bytes (neither terminator nor colon) are skipped
pub proof fn lemma_aend_skip(t: Seq<u8>, a: int, b: int)
    requires 0 <= a <= b <= t.len(), forall|j: int| a <= j < b ==> !is_term(t[j]) && t[j] != 0x3A
    ensures aend(t, a) == aend(t, b)
    decreases b - a
{
    if a < b { lemma_aend_skip(t, a + 1, b); }
}
pub proof fn lemma_or9(a: u8, b: u8, c: u8, d: u8, e: u8, f: u8, g: u8, h: u8, i: u8)
    requires a == 0xFF || a == 0, b == 0xFF || b == 0, c == 0xFF || c == 0, d == 0xFF || d == 0, e == 0xFF || e == 0,
        f == 0xFF || f == 0, g == 0xFF || g == 0, h == 0xFF || h == 0, i == 0xFF || i == 0
    ensures (((((a | b) | c) | d) | ((((e | f) | g) | h) | i)) >= 0x80) == (a == 0xFF || b == 0xFF || c == 0xFF || d == 0xFF || e == 0xFF || f == 0xFF || g == 0xFF || h == 0xFF || i == 0xFF)
{
    assert((a == 0xFFu8 || a == 0u8) && (b == 0xFFu8 || b == 0u8) && (c == 0xFFu8 || c == 0u8) && (d == 0xFFu8 || d == 0u8) && (e == 0xFFu8 || e == 0u8)
        && (f == 0xFFu8 || f == 0u8) && (g == 0xFFu8 || g == 0u8) && (h == 0xFFu8 || h == 0u8) && (i == 0xFFu8 || i == 0u8)
        ==> ((((((a | b) | c) | d) | ((((e | f) | g) | h) | i)) >= 0x80u8) == (a == 0xFFu8 || b == 0xFFu8 || c == 0xFFu8 || d == 0xFFu8 || e == 0xFFu8 || f == 0xFFu8 || g == 0xFFu8 || h == 0xFFu8 || i == 0xFFu8))) by (bit_vector);
}
/// `_mm256_loadu_si256(input.as_ptr().add(pos).cast())` on the whole input
pub fn load256_at(input: &[u8], pos: usize) -> (r: __m256i)
    requires pos + 32 <= input@.len()
    ensures r.lanes().len() == 32, forall|i: int| 0 <= i < 32 ==> #[trigger] r.lanes()[i] == input@[pos + i]
{ load256(input, pos) }
