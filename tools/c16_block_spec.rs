
// ---- block scalars
pub open spec fn is_nl(b: u8) -> bool { b == 0x0A || b == 0x0D }
/// number of consecutive spaces from p
pub open spec fn spaces_run(t: Seq<u8>, p: int) -> int
    decreases t.len() - p
{
    if 0 <= p < t.len() && t[p] == 0x20 { 1 + spaces_run(t, p + 1) } else { 0 }
}
pub proof fn lemma_spaces_run(t: Seq<u8>, p: int, n: int)
    requires 0 <= p, 0 <= n, p + n <= t.len(), forall|j: int| p <= j < p + n ==> t[j] == 0x20, p + n == t.len() || t[p + n] != 0x20
    ensures spaces_run(t, p) == n
    decreases n
{
    if n > 0 { lemma_spaces_run(t, p + 1, n - 1); }
}
/// the line after the line break at p has content at less than mi spaces
pub open spec fn ends_block(t: Seq<u8>, p: int, mi: int) -> bool {
    let ls = p + 1; let ind = spaces_run(t, ls);
    ls + ind < t.len() && !is_nl(t[ls + ind]) && ind < mi
}
/// DEFINITION (the scalar loop): start of the first line with content at insufficient indent, else the end of input
pub open spec fn bend(t: Seq<u8>, pos: int, mi: int) -> int
    decreases t.len() - pos
{
    if pos < 0 || pos >= t.len() { t.len() as int }
    else if is_nl(t[pos]) && pos + 1 >= t.len() { t.len() as int }
    else if is_nl(t[pos]) && ends_block(t, pos, mi) { pos + 1 }
    else { bend(t, pos + 1, mi) }
}
pub proof fn lemma_bend_skip(t: Seq<u8>, a: int, b: int, mi: int)
    requires 0 <= a <= b <= t.len(), forall|j: int| a <= j < b ==> !is_nl(t[j])
    ensures bend(t, a, mi) == bend(t, b, mi)
    decreases b - a
{
    if a < b { lemma_bend_skip(t, a + 1, b, mi); }
}
/// clearing the lowest set bit of a mask
pub proof fn lemma_clear_lowest32(m: u32)
    requires m != 0
    ensures ({
        let t = vstd::std_specs::bits::u32_trailing_zeros(m);
        forall|i: u32| i < 32 ==> ((#[trigger] ((m & ((m - 1) as u32)) >> i)) & 1 == 1) == ((m >> i) & 1 == 1 && i != t)
    })
{
    vstd::std_specs::bits::axiom_u32_trailing_zeros(m);
    let t = vstd::std_specs::bits::u32_trailing_zeros(m) as u32;
    let c = m & ((m - 1) as u32);
    let low = m & (((1u32 << t) - 1) as u32);
    // the bits below t are clear
    assert(low == 0) by {
        assert forall|j: u32| j < 32 implies (#[trigger] (low >> j)) & 1 == 0 by {
            if j < t { assert((m >> j) & 1 == 0); }
            assert(t < 32 && j < 32 ==> (((m & (((1u32 << t) - 1) as u32)) >> j) & 1) == (if j < t { (m >> j) & 1 } else { 0 })) by (bit_vector);
        }
        lemma_u32_zero(low);
    }
    assert forall|i: u32| i < 32 implies ((#[trigger] (c >> i)) & 1 == 1) == ((m >> i) & 1 == 1 && i != t) by {
        assert(m != 0 && t < 32 && (m >> t) & 1 == 1 && (m & (((1u32 << t) - 1) as u32)) == 0 && i < 32
            ==> ((((m & ((m - 1) as u32)) >> i) & 1 == 1) == ((m >> i) & 1 == 1 && i != t))) by (bit_vector);
    }
}
pub proof fn lemma_u32_zero(a: u32)
    requires forall|j: u32| j < 32 ==> (#[trigger] (a >> j)) & 1 == 0
    ensures a == 0
{
    lemma_u32_zero_rec(a, 32);
    assert(a & 0xFFFF_FFFFu32 == a) by (bit_vector);
}
pub proof fn lemma_u32_zero_rec(a: u32, n: u32)
    requires n <= 32, forall|j: u32| j < 32 ==> (#[trigger] (a >> j)) & 1 == 0
    ensures a & (if n == 32 { 0xFFFF_FFFFu32 } else { (((1u32 << n) - 1) as u32) }) == 0
    decreases n
{
    if n == 0 {
        assert(a & (((1u32 << 0u32) - 1) as u32) == 0) by (bit_vector);
    } else {
        lemma_u32_zero_rec(a, (n - 1) as u32);
        let j = (n - 1) as u32;
        assert((a >> j) & 1 == 0);
        if n == 32 {
            assert(a & 0x7FFF_FFFFu32 == 0 && (a >> 31u32) & 1 == 0 ==> a & 0xFFFF_FFFFu32 == 0) by (bit_vector);
            assert((((1u32 << 31u32) - 1) as u32) == 0x7FFF_FFFFu32) by (bit_vector);
        } else {
            assert(j < 31 && n == j + 1 && a & (((1u32 << j) - 1) as u32) == 0 && (a >> j) & 1 == 0 ==> a & (((1u32 << n) - 1) as u32) == 0) by (bit_vector);
        }
    }
}
/// `_mm_loadu_si128(input.as_ptr().add(pos).cast())` on the whole input
pub fn load128_at(input: &[u8], pos: usize) -> (r: __m128i)
    requires pos + 16 <= input@.len()
    ensures r.lanes().len() == 16, forall|i: int| 0 <= i < 16 ==> #[trigger] r.lanes()[i] == input@[pos + i]
{ load128(input, pos) }
/// the indentation probe: mask of SPACES among the W bytes from ls
pub proof fn lemma_spaces_mask(t: Seq<u8>, ls: int, w: int, mask: u32)
    requires 0 <= ls, ls + w <= t.len(), t.len() <= 0x7fff_ffff_ffff_ffff, (w == 32 || (w == 16 && mask < 0x1_0000)),
        forall|i: u32| i < w ==> ((#[trigger] (mask >> i)) & 1 == 1) == (t[ls + i] == 0x20)
    ensures ({
        let full: u32 = if w == 32 { 0xFFFF_FFFFu32 } else { 0xFFFFu32 };
        &&& mask == full ==> forall|j: int| ls <= j < ls + w ==> t[j] == 0x20
        &&& mask != full ==> ({ let n = vstd::std_specs::bits::u32_trailing_zeros(!mask); n < w && spaces_run(t, ls) == n })
    })
{
    let d2 = t.subrange(ls, t.len() as int);
    assert forall|i: u32| i < w implies ((#[trigger] (mask >> i)) & 1 == 1) == (d2[0 + i] == 0x20) by { assert(d2[0 + i] == t[ls + i]); }
    lemma_chunk_spaces(d2, 0, w, mask);
    let full: u32 = if w == 32 { 0xFFFF_FFFFu32 } else { 0xFFFFu32 };
    if mask == full {
        assert forall|j: int| ls <= j < ls + w implies t[j] == 0x20 by { assert(d2[j - ls] == t[j]); }
    } else {
        let n = vstd::std_specs::bits::u32_trailing_zeros(!mask) as int;
        assert(is_space_run(d2, n));
        assert forall|j: int| ls <= j < ls + n implies t[j] == 0x20 by { assert(d2[j - ls] == t[j]); }
        if ls + n < t.len() { assert(d2[n] == t[ls + n]); }
        lemma_spaces_run(t, ls, n);
    }
}
