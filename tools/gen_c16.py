#!/usr/bin/env python3
"""Generates verus/c16_kernels.toml (the per-kernel items are regular; writing them by hand invites typos)."""
import textwrap
HEAD = r'''name = "c16_kernels"
props = ["C16"]
statement = "the vectorised YAML scanning kernels on the real text, for buffers of every length, every start and every end: find_newline, find_quote_or_escape, find_single_quote and count_leading_spaces (AVX2 and SSE2 variants and their runtime dispatchers) return exactly the answer of the scalar definition (offset of the first byte of the class at or after start / number of leading spaces); every vector load is in bounds"
prelude = ["speclib_simd.rs"]
trusted = [
  "intrinsic lane semantics (speclib_simd.rs): stubs with the Intel SDM meaning of set1/cmpeq/or/movemask and the unaligned loads; Kani cross-checks each stub on the real intrinsic (c16_intrinsic_*); `unsafe fn` / `unsafe { }` / #[target_feature] dropped because every unsafe operation in these kernels is one of those stubs (rule U1)",
  "`(a..b).find(|&i| pred(data[i]))` and `data[a..].iter().take_while(|&&b| b == b' ').count()` replaced by stubs with the documented meaning of the std iterator adapters",
  "avx2_enabled() (cpuid + SUCCINCTLY_SIMD clamp): arbitrary boolean",
  "vstd specification of u32::trailing_zeros",
]
spec = ''' + "'''" + r'''
global size_of usize == 8;
/// byte classes the kernels look for: 0 = LF, 1 = double quote or backslash, 2 = single quote, 3 = anything but a space
pub open spec fn in_class(k: int, b: u8) -> bool {
    if k == 0 { b == 0x0A } else if k == 1 { b == 0x22 || b == 0x5C } else if k == 2 { b == 0x27 } else { b != 0x20 }
}
/// the first index i in [from, to) whose byte is in the class, if any  (what the scalar loops compute)
pub open spec fn is_first(data: Seq<u8>, from: int, to: int, k: int, r: Option<usize>) -> bool {
    match r {
        Some(i) => from <= i < to && in_class(k, data[i as int]) && forall|j: int| from <= j < i ==> !in_class(k, data[j]),
        None => forall|j: int| from <= j < to ==> !in_class(k, data[j]),
    }
}
/// number of leading spaces of data: n spaces, then the end or a non-space
pub open spec fn is_space_run(data: Seq<u8>, n: int) -> bool {
    0 <= n <= data.len() && (forall|j: int| 0 <= j < n ==> data[j] == 0x20) && (n == data.len() || data[n] != 0x20)
}
/// Iterator::find over a range with a class predicate
#[verifier::external_body]
pub fn range_find(data: &[u8], from: usize, to: usize, k: usize) -> (r: Option<usize>)
    requires from >= to || to <= data@.len()
    ensures from >= to ==> r.is_none(), from < to ==> is_first(data@, from as int, to as int, k as int, r)
{ unimplemented!() }
/// `data[from..].iter().take_while(|&&b| b == b' ').count()`
#[verifier::external_body]
pub fn count_spaces_from(data: &[u8], from: usize) -> (n: usize)
    requires from <= data@.len()
    ensures from + n <= data@.len(), forall|j: int| from <= j < from + n ==> data@[j] == 0x20, from + n == data@.len() || data@[from + n] != 0x20
{ unimplemented!() }
#[verifier::external_body]
pub fn avx2_enabled() -> (r: bool) { unimplemented!() }
/// `&input[start..end]`
pub fn window(input: &[u8], start: usize, end: usize) -> (r: &[u8])
    requires start <= end <= input@.len()
    ensures r@ == input@.subrange(start as int, end as int)
{ slice_subrange(input, start, end) }
/// mask bit i tells whether data[offset + i] is in the class
pub open spec fn mask_of(data: Seq<u8>, offset: int, w: int, k: int, mask: u32) -> bool {
    forall|i: u32| i < w ==> ((#[trigger] (mask >> i)) & 1 == 1) == in_class(k, data[offset + i])
}
pub proof fn lemma_chunk(data: Seq<u8>, offset: int, w: int, k: int, mask: u32)
    requires mask_of(data, offset, w, k, mask), 0 <= offset, offset + w <= data.len(), data.len() <= 0x7fff_ffff_ffff_ffff, (w == 32 || (w == 16 && mask < 0x1_0000)),
        forall|j: int| 0 <= j < offset ==> !in_class(k, data[j])
    ensures
        mask == 0 ==> forall|j: int| 0 <= j < offset + w ==> !in_class(k, data[j]),
        mask != 0 ==> ({ let t = vstd::std_specs::bits::u32_trailing_zeros(mask);
                         t < w && is_first(data, 0, data.len() as int, k, Some((offset + t) as usize)) })
{
    if mask == 0 {
        assert forall|j: int| 0 <= j < offset + w implies !in_class(k, data[j]) by {
            if j >= offset { let i = (j - offset) as u32; lemma_mask_zero(mask, i); assert(((mask >> i) & 1 == 1) == in_class(k, data[offset + i])); }
        }
    } else {
        lemma_mask_first(mask);
        let t = vstd::std_specs::bits::u32_trailing_zeros(mask);
        let tu = t as u32;
        if w == 16 && t >= 16 { assert(mask < 0x1_0000 && tu >= 16 && tu < 32 ==> (mask >> tu) & 1 == 0) by (bit_vector); }
        assert(t < w);
        assert(((mask >> tu) & 1 == 1) == in_class(k, data[offset + tu]));
        assert forall|j: int| 0 <= j < offset + t implies !in_class(k, data[j]) by {
            if j >= offset { let i = (j - offset) as u32; assert((mask >> i) & 1 == 0); assert(((mask >> i) & 1 == 1) == in_class(k, data[offset + i])); }
        }
    }
}
/// the space kernels compute the mask of SPACES and look at its complement
pub proof fn lemma_chunk_spaces(data: Seq<u8>, offset: int, w: int, mask: u32)
    requires forall|i: u32| i < w ==> ((#[trigger] (mask >> i)) & 1 == 1) == (data[offset + i] == 0x20),
        0 <= offset, offset + w <= data.len(), data.len() <= 0x7fff_ffff_ffff_ffff, (w == 32 || (w == 16 && mask < 0x1_0000)),
        forall|j: int| 0 <= j < offset ==> data[j] == 0x20
    ensures ({
        let full: u32 = if w == 32 { 0xFFFF_FFFFu32 } else { 0xFFFFu32 };
        &&& mask == full ==> forall|j: int| 0 <= j < offset + w ==> data[j] == 0x20
        &&& mask != full ==> ({ let t = vstd::std_specs::bits::u32_trailing_zeros(!mask); t < w && is_space_run(data, offset + t) })
    })
{
    let full: u32 = if w == 32 { 0xFFFF_FFFFu32 } else { 0xFFFFu32 };
    let nm = !mask;
    assert forall|i: u32| i < 32 implies ((#[trigger] (nm >> i)) & 1 == 1) == !((mask >> i) & 1 == 1) by {
        assert(i < 32 ==> (((!mask) >> i) & 1 == 1) == !((mask >> i) & 1 == 1)) by (bit_vector);
    }
    if mask == full {
        assert forall|j: int| 0 <= j < offset + w implies data[j] == 0x20 by {
            if j >= offset {
                let i = (j - offset) as u32;
                if w == 32 { assert(i < 32 ==> (0xFFFF_FFFFu32 >> i) & 1 == 1) by (bit_vector); } else { assert(i < 16 ==> (0xFFFFu32 >> i) & 1 == 1) by (bit_vector); }
                assert(((mask >> i) & 1 == 1) == (data[offset + i] == 0x20));
            }
        }
    } else {
        if w == 32 { assert(mask != 0xFFFF_FFFFu32 ==> !mask != 0) by (bit_vector); } else { assert(mask < 0x1_0000 ==> !mask != 0) by (bit_vector); }
        lemma_mask_first(nm);
        let t = vstd::std_specs::bits::u32_trailing_zeros(nm);
        let tu = t as u32;
        if w == 16 && t >= 16 {
            // all 16 low bits of nm clear means mask == 0xFFFF
            assert(mask < 0x1_0000 && mask != 0xFFFFu32 ==> exists|i: u32| i < 16 && (((!mask) >> i) & 1 == 1)) by {
                assert(mask < 0x1_0000 && mask != 0xFFFFu32 ==> ((!mask) & 0xFFFFu32) != 0) by (bit_vector);
                lemma_mask_first(nm & 0xFFFFu32);
                let t2 = vstd::std_specs::bits::u32_trailing_zeros(nm & 0xFFFFu32) as u32;
                assert(t2 < 32 && ((nm & 0xFFFFu32) >> t2) & 1 == 1 ==> t2 < 16 && (nm >> t2) & 1 == 1) by (bit_vector);
            }
            let i = choose|i: u32| i < 16 && ((nm >> i) & 1 == 1);
            assert((nm >> i) & 1 == 0);
        }
        assert(t < w);
        assert(((mask >> tu) & 1 == 1) == (data[offset + tu] == 0x20));
        assert forall|j: int| 0 <= j < offset + t implies data[j] == 0x20 by {
            if j >= offset { let i = (j - offset) as u32; assert((nm >> i) & 1 == 0); assert(((mask >> i) & 1 == 1) == (data[offset + i] == 0x20)); }
        }
    }
}
pub proof fn lemma_or_lane(a: u8, b: u8)
    requires a == 0xFF || a == 0, b == 0xFF || b == 0
    ensures ((a | b) >= 0x80) == (a == 0xFF || b == 0xFF)
{
    assert((a == 0xFFu8 || a == 0u8) && (b == 0xFFu8 || b == 0u8) ==> (((a | b) >= 0x80u8) == (a == 0xFFu8 || b == 0xFFu8))) by (bit_vector);
}
''' + open('/verif/tools/c16_anchor_spec.rs').read() + open('/verif/tools/c16_block_spec.rs').read() + "'''\n"

COMMON_REWRITES = r'''[[item.rewrite]]
rule = "U1"
why = "unaligned vector load through a raw pointer -> load stub requiring offset + width <= data.len()"
regex = '_mm256_loadu_si256\(data\.as_ptr\(\)\.add\(offset\)\.cast::<__m256i>\(\)\)'
to = 'load256(data, offset)'
[[item.rewrite]]
rule = "U1"
regex = '_mm_loadu_si128\(data\.as_ptr\(\)\.add\(offset\)\.cast::<__m128i>\(\)\)'
to = 'load128(data, offset)'
[[item.rewrite]]
rule = "U1"
why = "`movemask(..) as u32` (reinterpretation of the i32 result) -> stub returning the mask as u32"
regex = '_mm256_movemask_epi8\((\w+)\) as u32'
to = 'movemask256(\1)'
[[item.rewrite]]
rule = "U1"
regex = '_mm_movemask_epi8\((\w+)\) as u32'
to = 'movemask128(\1)'
'''

def vec_inv(vecs, w):
    return ", ".join(f"{v}.lanes().len() == {w}, forall|i: int| 0 <= i < {w} ==> #[trigger] {v}.lanes()[i] == {hex(b)}u8" for v, b in vecs)

def mask_hint(k, w, vecs, occurrence, anchor):
    """after `let mask = movemaskW(matches);`: bit i of mask == class membership of d[offset+i]"""
    if k == 1:
        q, b = vecs[0][0], vecs[1][0]
        lane = f"""    assert(quotes.lanes()[i as int] == (if chunk.lanes()[i as int] == {q}.lanes()[i as int] {{ 0xFFu8 }} else {{ 0u8 }}));
    assert(backslashes.lanes()[i as int] == (if chunk.lanes()[i as int] == {b}.lanes()[i as int] {{ 0xFFu8 }} else {{ 0u8 }}));
    assert(matches.lanes()[i as int] == quotes.lanes()[i as int] | backslashes.lanes()[i as int]);
    lemma_or_lane(quotes.lanes()[i as int], backslashes.lanes()[i as int]);"""
    else:
        v = vecs[0][0]
        lane = f"    assert(matches.lanes()[i as int] == (if chunk.lanes()[i as int] == {v}.lanes()[i as int] {{ 0xFFu8 }} else {{ 0u8 }}));"
    if k == 3:
        cls = "(d[offset + i] == 0x20u8)"
        lem = f"lemma_chunk_spaces(d, offset as int, {w}, mask);"
    else:
        cls = f"in_class({k}, d[offset + i])"
        lem = f"lemma_chunk(d, offset as int, {w}, {k}, mask);"
    return f'''[[item.hint]]
after = "{anchor}"
nth = {occurrence}
proof = """
assert forall|i: u32| i < {w} implies ((#[trigger] (mask >> i)) & 1 == 1) == {cls} by {{
    assert(chunk.lanes()[i as int] == d[offset + i]);
{lane}
}}
{lem}
"""
'''

def kernel(fn, k, engine, has_end, tail_from, tail_to, vecs, sse_vecs=None):
    w = 32 if engine == "avx2" else 16
    sig_req = "start <= end <= input@.len()" if has_end else "start <= input@.len()"
    hi = "end as int" if has_end else "input@.len() as int"
    if k == 3:
        ens = f"is_space_run(input@.subrange(start as int, {hi}), r as int)"
        stmt = f"{engine.upper()} count_leading_spaces: the number of consecutive spaces starting at start (all lengths, all starts); all loads in bounds"
    else:
        ens = f"is_first(input@.subrange(start as int, {hi}), 0, {hi} - start, {k}, r)"
        stmt = f"{engine.upper()} {fn.rsplit('_',1)[0]}: the offset from start of the first byte of class {k} in [start, {'end' if has_end else 'len'}), None if none (all lengths, starts, ends); all loads in bounds"
    data_from = "let data = &input[start..end];" if has_end else "let data = &input[start..];"
    data_to = "let data = window(input, start, end);" if has_end else "let data = window(input, start, input.len());"
    inv = f"start <= input@.len(), " + (f"start <= end, end <= input@.len(), len == end - start, " if has_end else "") + \
          f"d == input@.subrange(start as int, {hi}), d == data@, len == data@.len(), offset <= len, input@.len() <= 0x7fff_ffff_ffff_ffff,\n            {vec_inv(vecs, w)},\n            " + \
          ("forall|j: int| 0 <= j < offset ==> d[j] == 0x20u8" if k == 3 else f"forall|j: int| 0 <= j < offset ==> !in_class({k}, d[j])")
    out = f'''
[[item]]
file = "src/yaml/simd/x86.rs"
kind = "fn"
name = "{fn}"
ret = "r"
requires = "{sig_req}, input@.len() <= 0x7fff_ffff_ffff_ffff"
ensures = "{ens}"
statement = "{stmt}"
[[item.rewrite]]
rule = "U1"
why = "`unsafe fn` -> `fn`: every unsafe operation inside is replaced by a stub whose precondition is its safety condition"
from = "unsafe fn {fn}"
to = "fn {fn}"
[[item.rewrite]]
rule = "R11"
from = "{data_from}"
to = "{data_to}"
''' + COMMON_REWRITES + f'''[[item.rewrite]]
rule = "R7"
why = "std iterator adapter with a closure -> stub with its documented meaning"
from = \'\'\'{tail_from}\'\'\'
to = \'\'\'{tail_to}\'\'\'
[[item.hint]]
at = "start"
ghost = "let ghost d = input@.subrange(start as int, {hi});"
[[item.loop]]
nth = 0
invariant = """{inv}"""
decreases = "len - offset"
'''
    mm = "movemask256" if w == 32 else "movemask128"
    out += mask_hint(k, w, vecs, 0, f"let mask = {mm}(matches);")
    if sse_vecs:
        out += mask_hint(k, 16, sse_vecs, 0, "let mask = movemask128(matches);")
    return out.replace("from = '", 'from = "').replace("'\nto = '", '"\nto = "') if False else out

def dispatcher(fn, k, has_end):
    args = "input, start, end" if has_end else "input, start"
    hi = "end as int" if has_end else "input@.len() as int"
    sig_req = "start <= end <= input@.len()" if has_end else "start <= input@.len()"
    ens = f"is_space_run(input@.subrange(start as int, {hi}), r as int)" if k == 3 else f"is_first(input@.subrange(start as int, {hi}), 0, {hi} - start, {k}, r)"
    return f'''
[[item]]
file = "src/yaml/simd/x86.rs"
kind = "fn"
name = "{fn}"
ret = "r"
requires = "{sig_req}, input@.len() <= 0x7fff_ffff_ffff_ffff"
ensures = "{ens}"
statement = "runtime dispatcher: the same answer whichever way the AVX2 flag falls"
[[item.rewrite]]
rule = "U1"
why = "`unsafe {{ f(..) }}` -> `{{ f(..) }}`: the callee's safety conditions are its Verus preconditions"
regex = 'unsafe \\{{'
to = '{{'
'''

items = ""
NL = [("newline_vec", 0x0A)]
items += kernel("find_newline_avx2", 0, "avx2", False, "(offset..len).find(|&i| data[i] == b'\\n')", "range_find(data, offset, len, 0)", NL, [("newline_vec_sse", 0x0A)])
items += kernel("find_newline_sse2", 0, "sse2", False, "(offset..len).find(|&i| data[i] == b'\\n')", "range_find(data, offset, len, 0)", NL)
items += dispatcher("find_newline_x86", 0, False)
QB = [("quote_vec", 0x22), ("backslash_vec", 0x5C)]
tailq = "(offset..len).find(|&i| { let b = data[i]; b == b'\"' || b == b'\\\\' })"
items += kernel("find_quote_or_escape_avx2", 1, "avx2", True, tailq, "range_find(data, offset, len, 1)", QB, [("quote_vec_sse", 0x22), ("backslash_vec_sse", 0x5C)])
items += kernel("find_quote_or_escape_sse2", 1, "sse2", True, tailq, "range_find(data, offset, len, 1)", QB)
items += dispatcher("find_quote_or_escape_x86", 1, True)
SQ = [("quote_vec", 0x27)]
items += kernel("find_single_quote_avx2", 2, "avx2", True, "(offset..len).find(|&i| data[i] == b'\\'')", "range_find(data, offset, len, 2)", SQ, [("quote_vec_sse", 0x27)])
items += kernel("find_single_quote_sse2", 2, "sse2", True, "(offset..len).find(|&i| data[i] == b'\\'')", "range_find(data, offset, len, 2)", SQ)
items += dispatcher("find_single_quote_x86", 2, True)
SP = [("space_vec", 0x20)]
tails = "offset + data[offset..].iter().take_while(|&&b| b == b' ').count()"
items += kernel("count_leading_spaces_avx2", 3, "avx2", False, tails, "offset + count_spaces_from(data, offset)", SP, [("space_vec_sse", 0x20)])
items += kernel("count_leading_spaces_sse2", 3, "sse2", False, tails, "offset + count_spaces_from(data, offset)", SP)
items += dispatcher("count_leading_spaces_x86", 3, False)
items += open("/verif/tools/c16_anchor_items.toml").read()

def block_items(eng):
    t = open("/verif/tools/c16_block_items.tmpl").read()
    if eng == "avx2":
        m = {"@ENG@": "avx2", "@ENGU@": "AVX2", "@W@": "32", "@LOADI@": "_mm256_loadu_si256", "@VT@": "__m256i", "@LOADS@": "load256_at", "@MMI@": "_mm256_movemask_epi8",
             "@MMS@": "movemask256", "@OR@": "_mm256_or_si256", "@CMP@": "_mm256_cmpeq_epi8", "@MASKLT@": "", "@OFFLT@": "assert(offset < 32);"}
    else:
        m = {"@ENG@": "sse2", "@ENGU@": "SSE2", "@W@": "16", "@LOADI@": "_mm_loadu_si128", "@VT@": "__m128i", "@LOADS@": "load128_at", "@MMI@": "_mm_movemask_epi8",
             "@MMS@": "movemask128", "@OR@": "_mm_or_si128", "@CMP@": "_mm_cmpeq_epi8", "@MASKLT@": "mask0 < 0x1_0000,",
             "@OFFLT@": "assert(mask0 < 0x1_0000 && ou >= 16 && ou < 32 ==> (mask0 >> ou) & 1 == 0) by (bit_vector); assert(offset < 16);"}
    for k, v in m.items():
        t = t.replace(k, v)
    return t
items += open("/verif/tools/c16_block_tail.toml").read() + block_items("avx2") + block_items("sse2") + open("/verif/tools/c16_block_disp.toml").read()
open("/verif/verus/c16_kernels.toml", "w").write("# GENERATED by tools/gen_c16.py\n" + HEAD + items)
