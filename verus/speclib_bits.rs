// Shared mathematical vocabulary: bits, popcount, ones-in-word-range, rank/select over Seq<u64>.
// Everything here is spec/proof code (no executable semantics); top-level postconditions are phrased with it.

global size_of usize == 8;

pub open spec fn popcount(x: u64) -> nat
    decreases x
    via popcount_dec
{
    if x == 0 { 0 } else { (x & 1) as nat + popcount(x >> 1) }
}
#[via_fn]
proof fn popcount_dec(x: u64) {
    assert(x != 0 ==> (x >> 1) < x) by (bit_vector);
}

// TRUSTED (cross-checked): u64::count_ones == popcount; Kani harness c02_count_ones_is_popcount proves the
// executable intrinsic equals the bit-at-a-time count for all 2^64 words.
pub assume_specification[u64::count_ones](x: u64) -> (r: u32)
    ensures r as nat == popcount(x), r <= 64;

pub proof fn lemma_popcount_le64(x: u64)
    ensures popcount(x) <= 64
{
    lemma_popcount_bound(x, 64);
}
pub proof fn lemma_popcount_bound(x: u64, n: nat)
    requires n <= 64, n < 64 ==> x < (1u64 << n as u64),
    ensures popcount(x) <= n
    decreases n
{
    if x == 0 {
    } else if n == 0 {
        assert((1u64 << 0u64) == 1) by (bit_vector);
    } else {
        let m = (n - 1) as nat;
        let y = x >> 1;
        if n < 64 {
            let nn = n as u64; let mm = m as u64;
            assert(x < (1u64 << nn) && nn == mm + 1 && mm < 63 ==> (x >> 1) < (1u64 << mm)) by (bit_vector);
        } else {
            assert((x >> 1) < (1u64 << 63u64)) by (bit_vector);
        }
        lemma_popcount_bound(y, m);
        assert((x & 1) <= 1) by (bit_vector);
    }
}

/// bit i of the bit sequence stored LSB-first in 64-bit words
pub open spec fn bit(s: Seq<u64>, i: int) -> bool
    recommends 0 <= i < 64 * s.len()
{
    (s[i / 64] >> ((i % 64) as u64)) & 1 == 1
}

/// number of ones in words[a..b)
pub open spec fn ones(s: Seq<u64>, a: int, b: int) -> nat
    decreases b - a
{
    if a >= b { 0 } else { ones(s, a, b - 1) + popcount(s[b - 1]) }
}

pub proof fn lemma_ones_split(s: Seq<u64>, a: int, m: int, b: int)
    requires a <= m <= b
    ensures ones(s, a, b) == ones(s, a, m) + ones(s, m, b)
    decreases b - m
{
    if m < b { lemma_ones_split(s, a, m, b - 1); }
}

pub proof fn lemma_ones_subrange(s: Seq<u64>, lo: int, hi: int, a: int, b: int)
    requires 0 <= lo <= hi <= s.len(), 0 <= a <= b <= hi - lo
    ensures ones(s.subrange(lo, hi), a, b) == ones(s, lo + a, lo + b)
    decreases b - a
{
    if a < b { lemma_ones_subrange(s, lo, hi, a, b - 1); }
}

pub proof fn lemma_ones_bound(s: Seq<u64>, a: int, b: int)
    requires a <= b
    ensures ones(s, a, b) <= 64 * (b - a)
    decreases b - a
{
    if a < b { lemma_ones_bound(s, a, b - 1); lemma_popcount_le64(s[b - 1]); }
}

pub proof fn lemma_ones_mono(s: Seq<u64>, a: int, b: int, c: int)
    requires a <= b <= c
    ensures ones(s, a, b) <= ones(s, a, c)
{
    lemma_ones_split(s, a, b, c);
}

pub proof fn lemma_ones_ext(s: Seq<u64>, t: Seq<u64>, a: int, b: int)
    requires 0 <= a, b <= s.len(), b <= t.len(), forall|i: int| a <= i < b ==> s[i] == t[i]
    ensures ones(s, a, b) == ones(t, a, b)
    decreases b - a
{
    if a < b { lemma_ones_ext(s, t, a, b - 1); }
}

/// the scan contract: word i (>= start) holds the (rem)-th one counted from word `start`, r = rank inside word i
pub open spec fn scan_hit(s: Seq<u64>, start: int, rem: nat, i: int, r: nat) -> bool {
    start <= i < s.len() && ones(s, start, i) + r == rem && r < popcount(s[i])
}
pub open spec fn scan_miss(s: Seq<u64>, start: int, rem: nat) -> bool {
    ones(s, start, s.len() as int) <= rem
}
