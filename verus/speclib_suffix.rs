// Suffix-of-a-word vocabulary: x with its low b bits cleared, its popcount, and the `m & (m-1)` / trailing_zeros step.
// Spec/proof code only. u64::trailing_zeros is vstd's specification (std_specs::bits), listed as trusted.

pub open spec fn lowmask(n: nat) -> u64 { if n >= 64 { 0xffff_ffff_ffff_ffffu64 } else { (((1u64 << (n as u64)) - 1) as u64) } }
/// x with its bits below b cleared
pub open spec fn suffix(x: u64, b: nat) -> u64 { x & !lowmask(b) }

pub proof fn lemma_suffix_bits(x: u64, b: nat)
    requires b <= 64
    ensures forall|j: u64| j < 64 ==> ((#[trigger] (suffix(x, b) >> j)) & 1 == 1) == (j >= b && (x >> j) & 1 == 1)
{
    let m = suffix(x, b);
    assert forall|j: u64| j < 64 implies ((#[trigger] (m >> j)) & 1 == 1) == (j >= b && (x >> j) & 1 == 1) by {
        if b >= 64 {
            assert(((x & !0xffff_ffff_ffff_ffffu64) >> j) & 1 == 0) by (bit_vector);
        } else {
            let bb = b as u64;
            assert(j < 64 && bb < 64 ==> (((x & !(((1u64 << bb) - 1) as u64)) >> j) & 1 == 1) == (j >= bb && (x >> j) & 1 == 1)) by (bit_vector);
        }
    }
}
pub proof fn lemma_bits_popcount_low(x: u64, m: u64, b: nat, r: nat)
    requires b <= 64, r <= 64, forall|j: u64| j < 64 ==> ((#[trigger] (m >> j)) & 1 == 1) == (j >= b && (x >> j) & 1 == 1)
    ensures popcount_low(m, r) + popcount_low(x, if r < b { r } else { b }) == popcount_low(x, r)
    decreases r
{
    if r > 0 {
        lemma_bits_popcount_low(x, m, b, (r - 1) as nat);
        let j = (r - 1) as u64;
        assert(((m >> j) & 1 == 1) == (j >= b && (x >> j) & 1 == 1));
    }
}
/// ones of the suffix: popcount(suffix(x,b)) + (ones below b) == popcount(x)
pub proof fn lemma_suffix_popcount(x: u64, b: nat)
    requires b <= 64
    ensures popcount(suffix(x, b)) + popcount_low(x, b) == popcount(x),
        forall|r: nat| b <= r <= 64 ==> #[trigger] popcount_low(suffix(x, b), r) + popcount_low(x, b) == popcount_low(x, r)
{
    lemma_suffix_bits(x, b);
    let m = suffix(x, b);
    lemma_bits_popcount_low(x, m, b, 64);
    lemma_popcount_low_64(m);
    lemma_popcount_low_64(x);
    assert forall|r: nat| b <= r <= 64 implies #[trigger] popcount_low(m, r) + popcount_low(x, b) == popcount_low(x, r) by {
        lemma_bits_popcount_low(x, m, b, r);
    }
}
/// no set bits in [a, b)  ==>  popcount_low does not grow
pub proof fn lemma_popcount_low_zero_run(x: u64, a: nat, b: nat)
    requires a <= b <= 64, forall|j: u64| a <= j < b ==> (#[trigger] (x >> j)) & 1 == 0
    ensures popcount_low(x, b) == popcount_low(x, a)
    decreases b
{
    if a < b {
        lemma_popcount_low_zero_run(x, a, (b - 1) as nat);
        let j = (b - 1) as u64;
        assert((x >> j) & 1 == 0);
    }
}
pub proof fn lemma_u64_ext(a: u64, b: u64)
    requires forall|j: u64| j < 64 ==> ((#[trigger] (a >> j)) & 1) == ((b >> j) & 1)
    ensures a == b
{
    lemma_u64_ext_rec(a, b, 64);
    assert(a & 0xffff_ffff_ffff_ffff == a && b & 0xffff_ffff_ffff_ffff == b) by (bit_vector);
}
pub proof fn lemma_u64_ext_rec(a: u64, b: u64, n: nat)
    requires n <= 64, forall|j: u64| j < 64 ==> ((#[trigger] (a >> j)) & 1) == ((b >> j) & 1)
    ensures a & lowmask(n) == b & lowmask(n)
    decreases n
{
    if n == 0 {
        assert(a & (((1u64 << 0u64) - 1) as u64) == 0 && b & (((1u64 << 0u64) - 1) as u64) == 0) by (bit_vector);
    } else {
        lemma_u64_ext_rec(a, b, (n - 1) as nat);
        let j = (n - 1) as u64;
        assert(((a >> j) & 1) == ((b >> j) & 1));
        let m0 = lowmask((n - 1) as nat); let m1 = lowmask(n);
        if n == 64 {
            assert(a & 0x7fff_ffff_ffff_ffff == b & 0x7fff_ffff_ffff_ffff && ((a >> 63) & 1) == ((b >> 63) & 1) ==> a & 0xffff_ffff_ffff_ffff == b & 0xffff_ffff_ffff_ffff) by (bit_vector);
            assert(m0 == 0x7fff_ffff_ffff_ffff) by (bit_vector) requires m0 == (((1u64 << 63u64) - 1) as u64);
        } else {
            let n1 = n as u64;
            assert(j < 63 && n1 == j + 1 && a & (((1u64 << j) - 1) as u64) == b & (((1u64 << j) - 1) as u64) && ((a >> j) & 1) == ((b >> j) & 1)
                ==> a & (((1u64 << n1) - 1) as u64) == b & (((1u64 << n1) - 1) as u64)) by (bit_vector);
        }
    }
}
pub proof fn lemma_bit01(a: u64, j: u64)
    ensures (a >> j) & 1 == 0 || (a >> j) & 1 == 1
{ assert((a >> j) & 1 == 0 || (a >> j) & 1 == 1) by (bit_vector); }

/// one step of "clear the lowest set bit" on a suffix of x: where the lowest set bit is, and what is left
pub proof fn lemma_suffix_step(x: u64, b: nat)
    requires b <= 64, suffix(x, b) != 0
    ensures ({
        let m = suffix(x, b);
        let t = vstd::std_specs::bits::u64_trailing_zeros(m);
        &&& b <= t < 64
        &&& (x >> (t as u64)) & 1 == 1
        &&& popcount_low(x, t as nat) == popcount_low(x, b)
        &&& m == suffix(x, t as nat)
        &&& m & ((m - 1) as u64) == suffix(x, (t + 1) as nat)
    })
{
    let m = suffix(x, b);
    let t = vstd::std_specs::bits::u64_trailing_zeros(m);
    vstd::std_specs::bits::axiom_u64_trailing_zeros(m);
    lemma_suffix_bits(x, b);
    let tu = t as u64;
    assert(((m >> tu) & 1 == 1) == (tu >= b && (x >> tu) & 1 == 1));
    assert forall|j: u64| b <= j < t implies (#[trigger] (x >> j)) & 1 == 0 by {
        assert((m >> j) & 1 == 0);
        assert(((m >> j) & 1 == 1) == (j >= b && (x >> j) & 1 == 1));
        lemma_bit01(x, j);
    }
    lemma_popcount_low_zero_run(x, b, t as nat);
    // m == suffix(x, t)
    lemma_suffix_bits(x, t as nat);
    let m2 = suffix(x, t as nat);
    assert forall|j: u64| j < 64 implies ((#[trigger] (m >> j)) & 1) == ((m2 >> j) & 1) by {
        assert(((m >> j) & 1 == 1) == (j >= b && (x >> j) & 1 == 1));
        assert(((m2 >> j) & 1 == 1) == (j >= t && (x >> j) & 1 == 1));
        if j < t { assert((m >> j) & 1 == 0); }
        lemma_bit01(m, j); lemma_bit01(m2, j);
    }
    lemma_u64_ext(m, m2);
    // clearing the lowest set bit
    let c = m & ((m - 1) as u64);
    lemma_suffix_bits(x, (t + 1) as nat);
    let m3 = suffix(x, (t + 1) as nat);
    assert forall|j: u64| j < 64 implies ((#[trigger] (c >> j)) & 1) == ((m3 >> j) & 1) by {
        assert(((m3 >> j) & 1 == 1) == (j >= t + 1 && (x >> j) & 1 == 1));
        assert(((m >> j) & 1 == 1) == (j >= b && (x >> j) & 1 == 1));
        // bit j of m & (m-1): cleared at and below the lowest set bit tu, unchanged above
        assert(m != 0 && tu < 64 && (m >> tu) & 1 == 1 && (m & (((1u64 << tu) - 1) as u64)) == 0 && j < 64
            ==> (((m & ((m - 1) as u64)) >> j) & 1) == (if j > tu { (m >> j) & 1 } else { 0 })) by (bit_vector);
        assert((m & (((1u64 << tu) - 1) as u64)) == 0) by {
            assert(m == x & !(((1u64 << tu) - 1) as u64));
            assert((x & !(((1u64 << tu) - 1) as u64)) & (((1u64 << tu) - 1) as u64) == 0) by (bit_vector);
        }
        lemma_bit01(m, j); lemma_bit01(m3, j); lemma_bit01(c, j);
    }
    lemma_u64_ext(c, m3);
}
