// Lane model of the x86 vector intrinsics used by the YAML scanning kernels. Each function below is an external_body
// stub with the lane semantics of the Intel SDM; Kani cross-checks every one of them on the real intrinsic for all
// inputs (harnesses c16_intrinsic_*). The unaligned loads through raw pointers become load stubs whose PRECONDITION is
// the in-bounds condition, so memory safety of every load is a proof obligation of the kernel.

#[verifier::external_body]
#[derive(Clone, Copy)]
pub struct __m256i { _p: [u8; 32] }
#[verifier::external_body]
#[derive(Clone, Copy)]
pub struct __m128i { _p: [u8; 16] }
impl __m256i { pub uninterp spec fn lanes(self) -> Seq<u8>; }
impl __m128i { pub uninterp spec fn lanes(self) -> Seq<u8>; }

#[verifier::external_body]
pub fn _mm256_set1_epi8(a: i8) -> (r: __m256i)
    ensures r.lanes().len() == 32, forall|i: int| 0 <= i < 32 ==> #[trigger] r.lanes()[i] == a as u8
{ unimplemented!() }
#[verifier::external_body]
pub fn _mm_set1_epi8(a: i8) -> (r: __m128i)
    ensures r.lanes().len() == 16, forall|i: int| 0 <= i < 16 ==> #[trigger] r.lanes()[i] == a as u8
{ unimplemented!() }
/// `_mm256_loadu_si256(data.as_ptr().add(offset).cast())`
#[verifier::external_body]
pub fn load256(data: &[u8], offset: usize) -> (r: __m256i)
    requires offset + 32 <= data@.len()
    ensures r.lanes().len() == 32, forall|i: int| 0 <= i < 32 ==> #[trigger] r.lanes()[i] == data@[offset + i]
{ unimplemented!() }
/// `_mm_loadu_si128(data.as_ptr().add(offset).cast())`
#[verifier::external_body]
pub fn load128(data: &[u8], offset: usize) -> (r: __m128i)
    requires offset + 16 <= data@.len()
    ensures r.lanes().len() == 16, forall|i: int| 0 <= i < 16 ==> #[trigger] r.lanes()[i] == data@[offset + i]
{ unimplemented!() }
#[verifier::external_body]
pub fn _mm256_cmpeq_epi8(a: __m256i, b: __m256i) -> (r: __m256i)
    requires a.lanes().len() == 32, b.lanes().len() == 32
    ensures r.lanes().len() == 32, forall|i: int| 0 <= i < 32 ==> #[trigger] r.lanes()[i] == (if a.lanes()[i] == b.lanes()[i] { 0xFFu8 } else { 0u8 })
{ unimplemented!() }
#[verifier::external_body]
pub fn _mm_cmpeq_epi8(a: __m128i, b: __m128i) -> (r: __m128i)
    requires a.lanes().len() == 16, b.lanes().len() == 16
    ensures r.lanes().len() == 16, forall|i: int| 0 <= i < 16 ==> #[trigger] r.lanes()[i] == (if a.lanes()[i] == b.lanes()[i] { 0xFFu8 } else { 0u8 })
{ unimplemented!() }
/// two's-complement reading of a lane (PCMPGTB compares signed bytes)
pub open spec fn lane_signed(x: u8) -> int { if x >= 128 { x as int - 256 } else { x as int } }
#[verifier::external_body]
pub fn _mm256_cmpgt_epi8(a: __m256i, b: __m256i) -> (r: __m256i)
    requires a.lanes().len() == 32, b.lanes().len() == 32
    ensures r.lanes().len() == 32, forall|i: int| 0 <= i < 32 ==> #[trigger] r.lanes()[i] == (if lane_signed(a.lanes()[i]) > lane_signed(b.lanes()[i]) { 0xFFu8 } else { 0u8 })
{ unimplemented!() }
#[verifier::external_body]
pub fn _mm_cmpgt_epi8(a: __m128i, b: __m128i) -> (r: __m128i)
    requires a.lanes().len() == 16, b.lanes().len() == 16
    ensures r.lanes().len() == 16, forall|i: int| 0 <= i < 16 ==> #[trigger] r.lanes()[i] == (if lane_signed(a.lanes()[i]) > lane_signed(b.lanes()[i]) { 0xFFu8 } else { 0u8 })
{ unimplemented!() }
#[verifier::external_body]
pub fn raw_or256(a: __m256i, b: __m256i) -> (r: __m256i)
    requires a.lanes().len() == 32, b.lanes().len() == 32
    ensures r.lanes().len() == 32, forall|i: int| 0 <= i < 32 ==> #[trigger] r.lanes()[i] == a.lanes()[i] | b.lanes()[i]
{ unimplemented!() }
#[verifier::external_body]
pub fn _mm_or_si128(a: __m128i, b: __m128i) -> (r: __m128i)
    requires a.lanes().len() == 16, b.lanes().len() == 16
    ensures r.lanes().len() == 16, forall|i: int| 0 <= i < 16 ==> #[trigger] r.lanes()[i] == a.lanes()[i] | b.lanes()[i]
{ unimplemented!() }
/// `_mm256_movemask_epi8(a) as u32`: bit i of the result is the top bit of lane i
#[verifier::external_body]
pub fn movemask256(a: __m256i) -> (r: u32)
    requires a.lanes().len() == 32
    ensures forall|i: u32| i < 32 ==> ((#[trigger] (r >> i)) & 1 == 1) == (a.lanes()[i as int] >= 0x80)
{ unimplemented!() }
/// `_mm_movemask_epi8(a) as u32`
#[verifier::external_body]
pub fn movemask128(a: __m128i) -> (r: u32)
    requires a.lanes().len() == 16
    ensures r < 0x1_0000, forall|i: u32| i < 16 ==> ((#[trigger] (r >> i)) & 1 == 1) == (a.lanes()[i as int] >= 0x80)
{ unimplemented!() }

/// first set bit of a non-zero mask: position t = trailing_zeros, bit t set, all lower bits clear
pub proof fn lemma_mask_first(mask: u32)
    requires mask != 0
    ensures ({
        let t = vstd::std_specs::bits::u32_trailing_zeros(mask);
        t < 32 && (mask >> (t as u32)) & 1 == 1 && forall|j: u32| j < t ==> (#[trigger] (mask >> j)) & 1 == 0
    })
{
    vstd::std_specs::bits::axiom_u32_trailing_zeros(mask);
}
pub proof fn lemma_mask_zero(mask: u32, j: u32)
    requires mask == 0, j < 32
    ensures (mask >> j) & 1 == 0
{
    assert((0u32 >> j) & 1 == 0) by (bit_vector);
}

// ---- saturating subtract / zero (used by the JSON escape masks: `byte < 0x20` as `subs_epu8(byte, 0x1F) == 0`)
#[verifier::external_body]
pub fn _mm256_subs_epu8(a: __m256i, b: __m256i) -> (r: __m256i)
    requires a.lanes().len() == 32, b.lanes().len() == 32
    ensures r.lanes().len() == 32, forall|i: int| 0 <= i < 32 ==> #[trigger] r.lanes()[i] == (if a.lanes()[i] >= b.lanes()[i] { (a.lanes()[i] - b.lanes()[i]) as u8 } else { 0u8 })
{ unimplemented!() }
#[verifier::external_body]
pub fn _mm_subs_epu8(a: __m128i, b: __m128i) -> (r: __m128i)
    requires a.lanes().len() == 16, b.lanes().len() == 16
    ensures r.lanes().len() == 16, forall|i: int| 0 <= i < 16 ==> #[trigger] r.lanes()[i] == (if a.lanes()[i] >= b.lanes()[i] { (a.lanes()[i] - b.lanes()[i]) as u8 } else { 0u8 })
{ unimplemented!() }
#[verifier::external_body]
pub fn _mm256_setzero_si256() -> (r: __m256i)
    ensures r.lanes().len() == 32, forall|i: int| 0 <= i < 32 ==> #[trigger] r.lanes()[i] == 0u8
{ unimplemented!() }
#[verifier::external_body]
pub fn _mm_setzero_si128() -> (r: __m128i)
    ensures r.lanes().len() == 16, forall|i: int| 0 <= i < 16 ==> #[trigger] r.lanes()[i] == 0u8
{ unimplemented!() }

// ---- more lane operations (UTF-8 validator). and/xor/or are given "boolean lane" corollaries by verified wrappers below.
#[verifier::external_body]
pub fn _mm256_max_epu8(a: __m256i, b: __m256i) -> (r: __m256i)
    requires a.lanes().len() == 32, b.lanes().len() == 32
    ensures r.lanes().len() == 32, forall|i: int| 0 <= i < 32 ==> #[trigger] r.lanes()[i] == (if a.lanes()[i] >= b.lanes()[i] { a.lanes()[i] } else { b.lanes()[i] })
{ unimplemented!() }
#[verifier::external_body]
pub fn raw_and256(a: __m256i, b: __m256i) -> (r: __m256i)
    requires a.lanes().len() == 32, b.lanes().len() == 32
    ensures r.lanes().len() == 32, forall|i: int| 0 <= i < 32 ==> #[trigger] r.lanes()[i] == a.lanes()[i] & b.lanes()[i]
{ unimplemented!() }
#[verifier::external_body]
pub fn raw_xor256(a: __m256i, b: __m256i) -> (r: __m256i)
    requires a.lanes().len() == 32, b.lanes().len() == 32
    ensures r.lanes().len() == 32, forall|i: int| 0 <= i < 32 ==> #[trigger] r.lanes()[i] == a.lanes()[i] ^ b.lanes()[i]
{ unimplemented!() }
pub open spec fn bl(x: u8) -> bool { x == 0xFF || x == 0 }
pub proof fn lemma_bool_lanes(a: u8, b: u8)
    requires bl(a), bl(b)
    ensures (a | b) == (if a == 0xFF || b == 0xFF { 0xFFu8 } else { 0u8 }), (a & b) == (if a == 0xFF && b == 0xFF { 0xFFu8 } else { 0u8 }),
        (a ^ b) == (if (a == 0xFF) != (b == 0xFF) { 0xFFu8 } else { 0u8 })
{
    assert((a == 0xFFu8 || a == 0u8) && (b == 0xFFu8 || b == 0u8) ==> ((a | b) == (if a == 0xFFu8 || b == 0xFFu8 { 0xFFu8 } else { 0u8 }))
        && ((a & b) == (if a == 0xFFu8 && b == 0xFFu8 { 0xFFu8 } else { 0u8 })) && ((a ^ b) == (if (a == 0xFFu8) != (b == 0xFFu8) { 0xFFu8 } else { 0u8 }))) by (bit_vector);
}
/// `_mm256_or_si256` with the boolean-lane corollary (verified on top of the raw lane formula)
pub fn _mm256_or_si256(a: __m256i, b: __m256i) -> (r: __m256i)
    requires a.lanes().len() == 32, b.lanes().len() == 32
    ensures r.lanes().len() == 32, forall|i: int| 0 <= i < 32 ==> #[trigger] r.lanes()[i] == a.lanes()[i] | b.lanes()[i],
        forall|i: int| 0 <= i < 32 && bl(a.lanes()[i]) && bl(b.lanes()[i]) ==> #[trigger] r.lanes()[i] == (if a.lanes()[i] == 0xFF || b.lanes()[i] == 0xFF { 0xFFu8 } else { 0u8 })
{
    let r = raw_or256(a, b);
    proof { assert forall|i: int| 0 <= i < 32 && bl(a.lanes()[i]) && bl(b.lanes()[i]) implies #[trigger] r.lanes()[i] == (if a.lanes()[i] == 0xFF || b.lanes()[i] == 0xFF { 0xFFu8 } else { 0u8 }) by { lemma_bool_lanes(a.lanes()[i], b.lanes()[i]); } }
    r
}
pub fn _mm256_and_si256(a: __m256i, b: __m256i) -> (r: __m256i)
    requires a.lanes().len() == 32, b.lanes().len() == 32
    ensures r.lanes().len() == 32, forall|i: int| 0 <= i < 32 ==> #[trigger] r.lanes()[i] == a.lanes()[i] & b.lanes()[i],
        forall|i: int| 0 <= i < 32 && bl(a.lanes()[i]) && bl(b.lanes()[i]) ==> #[trigger] r.lanes()[i] == (if a.lanes()[i] == 0xFF && b.lanes()[i] == 0xFF { 0xFFu8 } else { 0u8 })
{
    let r = raw_and256(a, b);
    proof { assert forall|i: int| 0 <= i < 32 && bl(a.lanes()[i]) && bl(b.lanes()[i]) implies #[trigger] r.lanes()[i] == (if a.lanes()[i] == 0xFF && b.lanes()[i] == 0xFF { 0xFFu8 } else { 0u8 }) by { lemma_bool_lanes(a.lanes()[i], b.lanes()[i]); } }
    r
}
pub fn _mm256_xor_si256(a: __m256i, b: __m256i) -> (r: __m256i)
    requires a.lanes().len() == 32, b.lanes().len() == 32
    ensures r.lanes().len() == 32, forall|i: int| 0 <= i < 32 ==> #[trigger] r.lanes()[i] == a.lanes()[i] ^ b.lanes()[i],
        forall|i: int| 0 <= i < 32 && bl(a.lanes()[i]) && bl(b.lanes()[i]) ==> #[trigger] r.lanes()[i] == (if (a.lanes()[i] == 0xFF) != (b.lanes()[i] == 0xFF) { 0xFFu8 } else { 0u8 })
{
    let r = raw_xor256(a, b);
    proof { assert forall|i: int| 0 <= i < 32 && bl(a.lanes()[i]) && bl(b.lanes()[i]) implies #[trigger] r.lanes()[i] == (if (a.lanes()[i] == 0xFF) != (b.lanes()[i] == 0xFF) { 0xFFu8 } else { 0u8 }) by { lemma_bool_lanes(a.lanes()[i], b.lanes()[i]); } }
    r
}
/// `_mm256_permute2x128_si256(a, b, 0x21)`: [a.high128, b.low128]
#[verifier::external_body]
pub fn _mm256_permute2x128_si256(a: __m256i, b: __m256i, imm: i32) -> (r: __m256i)
    requires a.lanes().len() == 32, b.lanes().len() == 32, imm == 0x21
    ensures r.lanes().len() == 32, forall|i: int| 0 <= i < 32 ==> #[trigger] r.lanes()[i] == (if i < 16 { a.lanes()[16 + i] } else { b.lanes()[i - 16] })
{ unimplemented!() }
/// `_mm256_alignr_epi8(a, b, n)`, n <= 16: in each 128-bit half, bytes n.. of (a_half : b_half)
#[verifier::external_body]
pub fn _mm256_alignr_epi8(a: __m256i, b: __m256i, n: i32) -> (r: __m256i)
    requires a.lanes().len() == 32, b.lanes().len() == 32, 0 <= n <= 16
    ensures r.lanes().len() == 32,
        forall|i: int| 0 <= i < 32 ==> #[trigger] r.lanes()[i] == ({ let k = if i < 16 { 0int } else { 16int }; let j = i - k;
            if j + n < 16 { b.lanes()[k + j + n] } else { a.lanes()[k + j + n - 16] } })
{ unimplemented!() }
/// `_mm256_testz_si256(a, b)`: 1 iff a & b is all zero
#[verifier::external_body]
pub fn _mm256_testz_si256(a: __m256i, b: __m256i) -> (r: i32)
    requires a.lanes().len() == 32, b.lanes().len() == 32
    ensures (r == 1) == (forall|i: int| 0 <= i < 32 ==> #[trigger] a.lanes()[i] & b.lanes()[i] == 0), r == 0 || r == 1
{ unimplemented!() }
