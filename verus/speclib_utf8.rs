// Well-formed UTF-8 per Unicode Table 3-7, as a definition over byte sequences. Spec/proof code only.

global size_of usize == 8;

// ---- DEFINITION: Unicode 15 Table 3-7, well-formed UTF-8 byte sequences
pub open spec fn cont(t: Seq<u8>, i: int, lo: u8, hi: u8) -> bool { 0 <= i < t.len() && lo <= t[i] <= hi }
/// length of the well-formed sequence starting at pos, 0 if none
pub open spec fn wf_len(t: Seq<u8>, p: int) -> int {
    let b = t[p];
    if b <= 0x7F { 1 }
    else if 0xC2 <= b <= 0xDF { if cont(t, p + 1, 0x80, 0xBF) { 2 } else { 0 } }
    else if b == 0xE0 { if cont(t, p + 1, 0xA0, 0xBF) && cont(t, p + 2, 0x80, 0xBF) { 3 } else { 0 } }
    else if (0xE1 <= b <= 0xEC) || b == 0xEE || b == 0xEF { if cont(t, p + 1, 0x80, 0xBF) && cont(t, p + 2, 0x80, 0xBF) { 3 } else { 0 } }
    else if b == 0xED { if cont(t, p + 1, 0x80, 0x9F) && cont(t, p + 2, 0x80, 0xBF) { 3 } else { 0 } }
    else if b == 0xF0 { if cont(t, p + 1, 0x90, 0xBF) && cont(t, p + 2, 0x80, 0xBF) && cont(t, p + 3, 0x80, 0xBF) { 4 } else { 0 } }
    else if 0xF1 <= b <= 0xF3 { if cont(t, p + 1, 0x80, 0xBF) && cont(t, p + 2, 0x80, 0xBF) && cont(t, p + 3, 0x80, 0xBF) { 4 } else { 0 } }
    else if b == 0xF4 { if cont(t, p + 1, 0x80, 0x8F) && cont(t, p + 2, 0x80, 0xBF) && cont(t, p + 3, 0x80, 0xBF) { 4 } else { 0 } }
    else { 0 }
}
/// length of the longest well-formed prefix, scanning from a sequence boundary p
pub open spec fn valid_upto(t: Seq<u8>, p: int) -> int
    decreases t.len() - p
{
    if p < 0 || p >= t.len() { t.len() as int }
    else { let l = wf_len(t, p); if l <= 0 { p } else { valid_upto(t, p + l) } }
}
pub open spec fn well_formed(t: Seq<u8>) -> bool { valid_upto(t, 0) == t.len() }

pub proof fn lemma_ascii_run(t: Seq<u8>, a: int, b: int)
    requires 0 <= a <= b <= t.len(), forall|i: int| a <= i < b ==> t[i] <= 0x7F
    ensures valid_upto(t, a) == valid_upto(t, b)
    decreases b - a
{
    if a < b { lemma_ascii_run(t, a + 1, b); }
}

