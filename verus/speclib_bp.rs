// Balanced-parentheses vocabulary shared by the builder unit (c04_build) and the search unit (c04_find): block folds of
// per-element (min prefix excess, total excess) pairs. Spec code only.

// ---- block folds: running excess and the minimum of (running excess + min of the next element), capped at 0
pub open spec fn blk_sum(exc: Seq<int>, lo: int, hi: int) -> int
    decreases hi - lo
{ if hi <= lo { 0 } else { blk_sum(exc, lo, hi - 1) + exc[hi - 1] } }
pub open spec fn min_int(a: int, b: int) -> int { if a < b { a } else { b } }
pub open spec fn blk_min(mn: Seq<int>, exc: Seq<int>, lo: int, hi: int) -> int
    decreases hi - lo
{ if hi <= lo { 0 } else { min_int(blk_min(mn, exc, lo, hi - 1), blk_sum(exc, lo, hi - 1) + mn[hi - 1]) } }
pub open spec fn to_int8(s: Seq<i8>) -> Seq<int> { Seq::new(s.len(), |i: int| s[i] as int) }
pub open spec fn to_int16(s: Seq<i16>) -> Seq<int> { Seq::new(s.len(), |i: int| s[i] as int) }
