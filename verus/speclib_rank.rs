// Bit-level definitions ("computed directly from the first len bits") and their relation to word-level `ones`.

/// number of set bits of x at positions < b  (b <= 64)
pub open spec fn popcount_low(x: u64, b: nat) -> nat
    decreases b
{
    if b == 0 { 0 } else { popcount_low(x, (b - 1) as nat) + if (x >> ((b - 1) as u64)) & 1 == 1 { 1nat } else { 0nat } }
}

pub proof fn lemma_popcount_low_shift(x: u64, n: nat)
    requires 1 <= n <= 64
    ensures popcount_low(x, n) == (x & 1) as nat + popcount_low(x >> 1, (n - 1) as nat)
    decreases n
{
    if n == 1 {
        assert(popcount_low(x, 0) == 0);
        assert(popcount_low(x >> 1, 0) == 0);
        assert((x >> 0u64) & 1 == x & 1) by (bit_vector);
        assert((x & 1) == 0 || (x & 1) == 1) by (bit_vector);
    } else {
        lemma_popcount_low_shift(x, (n - 1) as nat);
        let a = (n - 1) as u64;
        let b = (n - 2) as u64;
        assert(a == b + 1 && b < 63 ==> ((x >> 1) >> b) & 1 == (x >> a) & 1) by (bit_vector);
    }
}

pub proof fn lemma_popcount_is_low(x: u64, n: nat)
    requires n <= 64, n < 64 ==> x < (1u64 << (n as u64)),
    ensures popcount(x) == popcount_low(x, n)
    decreases n
{
    if n == 0 {
        assert((1u64 << 0u64) == 1) by (bit_vector);
        assert(x == 0);
    } else if x == 0 {
        lemma_popcount_low_zero(n);
    } else {
        let m = (n - 1) as nat;
        if n < 64 {
            let nn = n as u64; let mm = m as u64;
            assert(x < (1u64 << nn) && nn == mm + 1 && mm < 63 ==> (x >> 1) < (1u64 << mm)) by (bit_vector);
        } else {
            assert((x >> 1) < (1u64 << 63u64)) by (bit_vector);
        }
        lemma_popcount_is_low(x >> 1, m);
        lemma_popcount_low_shift(x, n);
    }
}

pub proof fn lemma_popcount_low_zero(n: nat)
    requires n <= 64
    ensures popcount_low(0, n) == 0
    decreases n
{
    if n > 0 {
        lemma_popcount_low_zero((n - 1) as nat);
        let a = (n - 1) as u64;
        assert(a < 64 ==> (0u64 >> a) & 1 == 0) by (bit_vector);
    }
}

pub proof fn lemma_popcount_low_64(x: u64)
    ensures popcount_low(x, 64) == popcount(x)
{
    lemma_popcount_is_low(x, 64);
}

pub proof fn lemma_popcount_low_agree(x: u64, y: u64, b: nat)
    requires b <= 64, forall|j: u64| j < b ==> (#[trigger] (x >> j)) & 1 == (y >> j) & 1
    ensures popcount_low(x, b) == popcount_low(y, b)
    decreases b
{
    if b > 0 {
        lemma_popcount_low_agree(x, y, (b - 1) as nat);
        let j = (b - 1) as u64;
        assert((x >> j) & 1 == (y >> j) & 1);
    }
}

/// popcount(x & low-mask(b)) == number of set bits below b   (the `partial` term of every rank1)
pub proof fn lemma_popcount_masked(x: u64, b: u64)
    requires b < 64
    ensures popcount(x & (((1u64 << b) - 1) as u64)) == popcount_low(x, b as nat), (1u64 << b) >= 1
{
    let m: u64 = ((1u64 << b) - 1) as u64;
    assert((1u64 << b) >= 1) by (bit_vector) requires b < 64;
    let y = x & m;
    assert(y < (1u64 << b)) by (bit_vector) requires b < 64, y == x & (((1u64 << b) - 1) as u64);
    lemma_popcount_is_low(y, b as nat);
    assert forall|j: u64| j < b implies (#[trigger] (y >> j)) & 1 == (x >> j) & 1 by {
        assert(j < b && b < 64 && y == x & (((1u64 << b) - 1) as u64) ==> (y >> j) & 1 == (x >> j) & 1) by (bit_vector);
    }
    lemma_popcount_low_agree(y, x, b as nat);
}

pub proof fn lemma_popcount_low_le(x: u64, b: nat)
    ensures popcount_low(x, b) <= b
    decreases b
{
    if b > 0 { lemma_popcount_low_le(x, (b - 1) as nat); }
}

pub proof fn lemma_popcount_low_mono(x: u64, a: nat, b: nat)
    requires a <= b
    ensures popcount_low(x, a) <= popcount_low(x, b)
    decreases b
{
    if a < b { lemma_popcount_low_mono(x, a, (b - 1) as nat); }
}

/// DEFINITION: number of set bits among bit positions < n of the sequence (rank1 "computed directly")
pub open spec fn rank1_bits(s: Seq<u64>, n: nat) -> nat
    decreases n
{
    if n == 0 { 0 } else { rank1_bits(s, (n - 1) as nat) + if bit(s, n - 1) { 1nat } else { 0nat } }
}

pub proof fn lemma_rank1_bits_le(s: Seq<u64>, n: nat)
    ensures rank1_bits(s, n) <= n
    decreases n
{
    if n > 0 { lemma_rank1_bits_le(s, (n - 1) as nat); }
}

pub proof fn lemma_rank1_bits_mono(s: Seq<u64>, a: nat, b: nat)
    requires a <= b
    ensures rank1_bits(s, a) <= rank1_bits(s, b), rank1_bits(s, b) - rank1_bits(s, a) <= b - a
    decreases b
{
    if a < b { lemma_rank1_bits_mono(s, a, (b - 1) as nat); }
}

/// rank1_bits only depends on the bits below n
pub proof fn lemma_rank1_bits_ext(s: Seq<u64>, t: Seq<u64>, n: nat)
    requires forall|j: int| 0 <= j < n ==> bit(s, j) == bit(t, j)
    ensures rank1_bits(s, n) == rank1_bits(t, n)
    decreases n
{
    if n > 0 { lemma_rank1_bits_ext(s, t, (n - 1) as nat); }
}

/// word/bit decomposition: bits below 64*w + b  ==  whole words below w  +  low b bits of word w
pub proof fn lemma_rank1_bits_split(s: Seq<u64>, w: nat, b: nat)
    requires b <= 64, b > 0 ==> w < s.len(), w <= s.len()
    ensures rank1_bits(s, 64 * w + b) == ones(s, 0, w as int) + if b == 0 { 0 } else { popcount_low(s[w as int], b) }
    decreases w, b
{
    if b == 0 {
        if w == 0 {
        } else {
            lemma_rank1_bits_split(s, (w - 1) as nat, 64);
            lemma_popcount_low_64(s[w - 1]);
            assert(64 * (w - 1) + 64 == 64 * w) by (nonlinear_arith);
        }
    } else {
        lemma_rank1_bits_split(s, w, (b - 1) as nat);
        let n = 64 * w + b;
        assert((n - 1) / 64 == w as int && (n - 1) % 64 == b - 1) by (nonlinear_arith) requires n == 64 * w + b, 1 <= b <= 64;
        assert(popcount_low(s[w as int], 0) == 0);
    }
}

/// if every bit at positions [a, b) is clear, rank1_bits does not grow
pub proof fn lemma_rank1_bits_zero_tail(s: Seq<u64>, a: nat, b: nat)
    requires a <= b, forall|j: int| a <= j < b ==> !bit(s, j)
    ensures rank1_bits(s, b) == rank1_bits(s, a)
    decreases b
{
    if a < b { lemma_rank1_bits_zero_tail(s, a, (b - 1) as nat); }
}

// ---- specification of the public answers, over the caller's words and len

pub open spec fn min_nat(a: nat, b: nat) -> nat { if a < b { a } else { b } }

/// select1 answer p for rank k: the position of the k-th (0-based) set bit among the first len bits
pub open spec fn is_select1(s: Seq<u64>, len: nat, k: nat, res: Option<usize>) -> bool {
    match res {
        Some(p) => p < len && bit(s, p as int) && rank1_bits(s, p as nat) == k,
        None => k >= rank1_bits(s, len),
    }
}
pub open spec fn is_select0(s: Seq<u64>, len: nat, k: nat, res: Option<usize>) -> bool {
    match res {
        Some(p) => p < len && !bit(s, p as int) && p - rank1_bits(s, p as nat) == k,
        None => k >= len - rank1_bits(s, len),
    }
}

/// contract of the in-word select kernels (Kani: c02_select_in_word_dispatch == ref, c02_ref_select_is_definition)
pub open spec fn is_select_in_word(x: u64, k: u32, r: u32) -> bool {
    if (k as nat) < popcount(x) { r < 64 && (x >> (r as u64)) & 1 == 1 && popcount_low(x, r as nat) == k }
    else { r == 64 }
}
