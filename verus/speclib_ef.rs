// Elias-Fano vocabulary: the encoding's representation invariant, the element it denotes at an index, cursor invariant,
// and the callee contracts (scan_select: unit c01_scan; select_in_word: Kani C02) used as stubs. Spec/proof code + stubs only.

#[verifier::external_body]
pub fn select_in_word(x: u64, k: u32) -> (r: u32)
    ensures is_select_in_word(x, k, r)
{ unimplemented!() }
#[verifier::external_body]
pub fn scan_select(words: &[u64], start_word: usize, remaining: usize) -> (res: Option<(usize, usize)>)
    requires words.len() <= usize::MAX - 8
    ensures
        match res {
            Some((i, r)) => scan_hit(words@, start_word as int, remaining as nat, i as int, r as nat),
            None => start_word >= words.len() || scan_miss(words@, start_word as int, remaining as nat),
        }
{ unimplemented!() }
pub fn vexpect<T>(o: Option<T>) -> (r: T)
    requires o.is_some()
    ensures o == Some(r)
{ o.unwrap() }

/// p is the position of the k-th (0-based) one of the bitmap
pub open spec fn sel(hb: Seq<u64>, k: nat, p: int) -> bool {
    0 <= p < 64 * hb.len() && bit(hb, p) && rank1_bits(hb, p as nat) == k
}
/// representation invariant of the high-bit side
pub open spec fn ef_high_wf(ef: &EliasFano) -> bool {
    let hb = ef.high_bits@;
    &&& hb.len() <= 0x0100_0000_0000_0000
    &&& ef.len == ones(hb, 0, hb.len() as int)
    &&& forall|s: int| 0 <= s < ef.select_samples@.len() ==> sel(hb, (256 * s) as nat, (#[trigger] ef.select_samples@[s]) as int) && 256 * s < ef.len
}

/// representation invariant of the low-bit side: low_width-bit fields packed LSB-first, field i at bit i*low_width
pub open spec fn ef_low_wf(ef: &EliasFano) -> bool {
    &&& ef.low_width <= 32
    &&& ef.low_bits@.len() <= 0x0100_0000_0000_0000
    &&& ef.len * ef.low_width <= 64 * ef.low_bits@.len()
}
pub open spec fn ef_wf(ef: &EliasFano) -> bool { ef_high_wf(ef) && ef_low_wf(ef) }
/// r is the low_width-bit field i of the packed low bits
pub open spec fn is_low(lb: Seq<u64>, lw: nat, i: nat, r: u64) -> bool {
    &&& lw < 64
    &&& r >> (lw as u64) == 0
    &&& forall|j: u64| j < lw ==> ((#[trigger] (r >> j)) & 1 == 1) == bit(lb, i * lw + j)
}
/// the value the encoding denotes at index i: (gap-coded high part << low_width) | low field, as stored
pub open spec fn is_elem(ef: &EliasFano, i: nat, v: u32) -> bool {
    exists|p: int, low: u64| sel(ef.high_bits@, i, p) && is_low(ef.low_bits@, ef.low_width as nat, i, low)
        && v == (((((p - i) as usize) as u64) << (ef.low_width as u64)) | low) as u32
}
pub open spec fn elem(ef: &EliasFano, i: nat) -> u32 { choose|v: u32| is_elem(ef, i, v) }

/// the decoded sequence is non-decreasing (true of every encoding of a non-decreasing input)
pub open spec fn ef_sorted(ef: &EliasFano) -> bool {
    forall|i: nat, j: nat| i <= j < ef.len ==> elem(ef, i) <= elem(ef, j)
}
pub proof fn lemma_sel_unique(hb: Seq<u64>, k: nat, p: int, q: int)
    requires sel(hb, k, p), sel(hb, k, q)
    ensures p == q
{
    if p < q { lemma_rank1_bits_mono(hb, (p + 1) as nat, q as nat); }
    if q < p { lemma_rank1_bits_mono(hb, (q + 1) as nat, p as nat); }
}
pub proof fn lemma_low_unique(lb: Seq<u64>, lw: nat, i: nat, a: u64, b: u64)
    requires is_low(lb, lw, i, a), is_low(lb, lw, i, b)
    ensures a == b
{
    let w = lw as u64;
    assert forall|j: u64| j < 64 implies ((#[trigger] (a >> j)) & 1) == ((b >> j) & 1) by {
        if j < w {
            assert(((a >> j) & 1 == 1) == bit(lb, i * lw + j));
            assert(((b >> j) & 1 == 1) == bit(lb, i * lw + j));
            assert((a >> j) & 1 == 0 || (a >> j) & 1 == 1) by (bit_vector);
            assert((b >> j) & 1 == 0 || (b >> j) & 1 == 1) by (bit_vector);
        } else {
            assert((a >> w) == 0 && w <= j && j < 64 ==> (a >> j) & 1 == 0) by (bit_vector);
            assert((b >> w) == 0 && w <= j && j < 64 ==> (b >> j) & 1 == 0) by (bit_vector);
        }
    }
    lemma_u64_ext(a, b);
}
pub proof fn lemma_elem_is(ef: &EliasFano, i: nat, v: u32)
    requires is_elem(ef, i, v)
    ensures elem(ef, i) == v
{
    let w = elem(ef, i);
    assert(is_elem(ef, i, w));
    let (p, low) = choose|p: int, low: u64| sel(ef.high_bits@, i, p) && is_low(ef.low_bits@, ef.low_width as nat, i, low)
        && v == (((((p - i) as usize) as u64) << (ef.low_width as u64)) | low) as u32;
    let (q, low2) = choose|p: int, low: u64| sel(ef.high_bits@, i, p) && is_low(ef.low_bits@, ef.low_width as nat, i, low)
        && w == (((((p - i) as usize) as u64) << (ef.low_width as u64)) | low) as u32;
    lemma_sel_unique(ef.high_bits@, i, p, q);
    lemma_low_unique(ef.low_bits@, ef.low_width as nat, i, low, low2);
}
/// field extraction, one word
pub proof fn lemma_field_one(x: u64, bo: u64, lw: u64)
    requires bo < 64, 1 <= lw <= 32, bo + lw <= 64
    ensures
        ({ let v = (x >> bo) & (((1u64 << lw) - 1) as u64);
           &&& (1u64 << lw) >= 1
           &&& v >> lw == 0
           &&& forall|j: u64| j < lw ==> ((#[trigger] (v >> j)) & 1) == ((x >> ((bo + j) as u64)) & 1) })
{
    assert((1u64 << lw) >= 1) by (bit_vector) requires lw <= 32;
    let v = (x >> bo) & (((1u64 << lw) - 1) as u64);
    assert(v >> lw == 0) by (bit_vector) requires v == (x >> bo) & (((1u64 << lw) - 1) as u64), 1 <= lw <= 32;
    assert forall|j: u64| j < lw implies ((#[trigger] (v >> j)) & 1) == ((x >> ((bo + j) as u64)) & 1) by {
        let bj = (bo + j) as u64;
        assert(((v >> j) & 1) == ((x >> bj) & 1)) by (bit_vector)
            requires v == (x >> bo) & (((1u64 << lw) - 1) as u64), bo < 64, 1 <= lw <= 32, j < lw, bj == bo + j, bj < 64;
    }
}
/// field extraction, spanning two words
pub proof fn lemma_field_two(x: u64, y: u64, bo: u64, lw: u64)
    requires bo < 64, 1 <= lw <= 32, bo + lw > 64
    ensures
        ({ let ob = (bo + lw - 64) as u64;
           let v = ((x >> bo) & (((1u64 << lw) - 1) as u64)) | ((y & (((1u64 << ob) - 1) as u64)) << ((lw - ob) as u64));
           &&& (1u64 << lw) >= 1 && (1u64 << ob) >= 1 && ob <= lw
           &&& v >> lw == 0
           &&& forall|j: u64| j < lw ==> ((#[trigger] (v >> j)) & 1) == (if bo + j < 64 { (x >> ((bo + j) as u64)) & 1 } else { (y >> ((bo + j - 64) as u64)) & 1 }) })
{
    let ob = (bo + lw - 64) as u64;
    let sh = (lw - ob) as u64;
    assert((1u64 << lw) >= 1) by (bit_vector) requires lw <= 32;
    assert((1u64 << ob) >= 1) by (bit_vector) requires ob <= 32;
    let v = ((x >> bo) & (((1u64 << lw) - 1) as u64)) | ((y & (((1u64 << ob) - 1) as u64)) << sh);
    assert(v >> lw == 0) by (bit_vector)
        requires v == ((x >> bo) & (((1u64 << lw) - 1) as u64)) | ((y & (((1u64 << ob) - 1) as u64)) << sh), 1 <= lw <= 32, ob <= lw, sh == lw - ob;
    assert forall|j: u64| j < lw implies ((#[trigger] (v >> j)) & 1) == (if bo + j < 64 { (x >> ((bo + j) as u64)) & 1 } else { (y >> ((bo + j - 64) as u64)) & 1 }) by {
        if bo + j < 64 {
            let bj = (bo + j) as u64;
            assert(((v >> j) & 1) == ((x >> bj) & 1)) by (bit_vector)
                requires v == ((x >> bo) & (((1u64 << lw) - 1) as u64)) | ((y & (((1u64 << ob) - 1) as u64)) << sh),
                    bo < 64, 1 <= lw <= 32, j < lw, bj == bo + j, bj < 64, sh == 64 - bo, ob == bo + lw - 64;
        } else {
            let bj = (bo + j - 64) as u64;
            assert(((v >> j) & 1) == ((y >> bj) & 1)) by (bit_vector)
                requires v == ((x >> bo) & (((1u64 << lw) - 1) as u64)) | ((y & (((1u64 << ob) - 1) as u64)) << sh),
                    bo < 64, 1 <= lw <= 32, j < lw, bj == bo + j - 64, bo + j >= 64, sh == 64 - bo, ob == bo + lw - 64;
        }
    }
}


/// representation invariant of a cursor: either exhausted (idx == len), or parked on the idx-th one of the high bits
/// with the word cache holding that word's bits at and after the current one
pub open spec fn cur_wf(c: EliasFanoCursor) -> bool {
    &&& ef_wf(c.ef)
    &&& c.idx <= c.ef.len
    &&& c.idx < c.ef.len ==> {
        &&& sel(c.ef.high_bits@, c.idx as nat, c.high_pos as int)
        &&& c.word_idx == c.high_pos / 64
        &&& c.remaining_bits == suffix(c.ef.high_bits@[c.word_idx as int], (c.high_pos % 64) as nat)
    }
}
/// what a cursor at index i over the plain sequence reports
pub open spec fn seq_at(ef: &EliasFano, i: nat) -> Option<u32> { if i < ef.len { Some(elem(ef, i)) } else { None } }
pub open spec fn min_us(a: int, b: int) -> int { if a < b { a } else { b } }

/// facts about the current position of a well-formed, non-exhausted cursor
pub proof fn lemma_cur_facts(c: EliasFanoCursor)
    requires cur_wf(c), c.idx < c.ef.len
    ensures ({
        let hb = c.ef.high_bits@; let x = hb[c.word_idx as int]; let bo = (c.high_pos % 64) as nat;
        &&& c.word_idx < hb.len()
        &&& (x >> (bo as u64)) & 1 == 1
        &&& ones(hb, 0, c.word_idx as int) + popcount_low(x, bo) == c.idx
        &&& c.remaining_bits != 0
        &&& vstd::std_specs::bits::u64_trailing_zeros(c.remaining_bits) == bo
        &&& c.remaining_bits & ((c.remaining_bits - 1) as u64) == suffix(x, bo + 1)
        &&& popcount_low(x, bo + 1) == popcount_low(x, bo) + 1
        &&& ones(hb, 0, c.word_idx + 1) == ones(hb, 0, c.word_idx as int) + popcount(x)
    })
{
    let hb = c.ef.high_bits@; let x = hb[c.word_idx as int]; let bo = (c.high_pos % 64) as nat; let bu = bo as u64;
    let m = c.remaining_bits;
    lemma_sel_split(hb, c.idx as nat, c.high_pos as int);
    lemma_suffix_bits(x, bo);
    assert(((m >> bu) & 1 == 1) == (bu >= bo && (x >> bu) & 1 == 1));
    assert(m == 0 ==> (m >> bu) & 1 == 0) by (bit_vector);
    lemma_suffix_step(x, bo);
    let t = vstd::std_specs::bits::u64_trailing_zeros(m);
    vstd::std_specs::bits::axiom_u64_trailing_zeros(m);
    if bo < t { assert((m >> bu) & 1 == 0); }
}
/// the first set bit of a non-zero word, as a cursor position
pub proof fn lemma_first_bit(x: u64)
    requires x != 0
    ensures ({
        let t = vstd::std_specs::bits::u64_trailing_zeros(x);
        t < 64 && (x >> (t as u64)) & 1 == 1 && popcount_low(x, t as nat) == 0 && x == suffix(x, t as nat)
    })
{
    assert(x & !(((1u64 << 0u64) - 1) as u64) == x) by (bit_vector);
    lemma_suffix_step(x, 0);
}
pub proof fn lemma_pos(w: int, t: int)
    requires 0 <= w, 0 <= t < 64
    ensures (64 * w + t) / 64 == w, (64 * w + t) % 64 == t, (w * 64 + t) / 64 == w, (w * 64 + t) % 64 == t
{
    assert((64 * w + t) / 64 == w && (64 * w + t) % 64 == t) by (nonlinear_arith) requires 0 <= w, 0 <= t < 64;
}

/// alias of ones(hb, 0, i) usable where the real code has a local named `ones`
pub open spec fn ones_upto(hb: Seq<u64>, i: int) -> nat { ones(hb, 0, i) }
pub proof fn lemma_ones_step(hb: Seq<u64>, i: int)
    requires 0 <= i < hb.len()
    ensures ones(hb, 0, i + 1) == ones(hb, 0, i) + popcount(hb[i])
{
}
/// one iteration of the "clear j lowest ones" loops: from a non-empty suffix at b to the suffix after its lowest one
pub proof fn lemma_clear_iter(xw: u64, b: nat, rb: u64)
    requires b <= 64, rb == suffix(xw, b), popcount(xw) > popcount_low(xw, b)
    ensures ({
        let t = vstd::std_specs::bits::u64_trailing_zeros(rb);
        &&& rb != 0 && t < 64 && b <= t
        &&& rb & ((rb - 1) as u64) == suffix(xw, (t + 1) as nat)
        &&& popcount_low(xw, (t + 1) as nat) == popcount_low(xw, b) + 1
        &&& popcount_low(xw, t as nat) == popcount_low(xw, b)
        &&& (xw >> (t as u64)) & 1 == 1
        &&& rb == suffix(xw, t as nat)
    })
{
    lemma_suffix_popcount(xw, b);
    assert(popcount(0) == 0);
    lemma_suffix_step(xw, b);
}

/// ones of x at positions >= b
pub proof fn lemma_masked_high(x: u64, b: u64)
    requires b < 64
    ensures
        ({ let m = x & !(((1u64 << b) - 1) as u64);
           &&& (1u64 << b) >= 1
           &&& popcount(m) + popcount_low(x, b as nat) == popcount(x)
           &&& forall|r: nat| b <= r <= 64 ==> #[trigger] popcount_low(m, r) + popcount_low(x, b as nat) == popcount_low(x, r)
           &&& forall|j: u64| j < 64 ==> ((#[trigger] (m >> j)) & 1 == 1) == (j >= b && (x >> j) & 1 == 1) })
{
    assert((1u64 << b) >= 1) by (bit_vector) requires b < 64;
    let m = x & !(((1u64 << b) - 1) as u64);
    assert forall|j: u64| j < 64 implies ((#[trigger] (m >> j)) & 1 == 1) == (j >= b && (x >> j) & 1 == 1) by {
        assert(j < 64 && b < 64 ==> (((x & !(((1u64 << b) - 1) as u64)) >> j) & 1 == 1) == (j >= b && (x >> j) & 1 == 1)) by (bit_vector);
    }
    lemma_masked_high_rec(x, m, b, 64);
    lemma_popcount_low_64(m);
    lemma_popcount_low_64(x);
    assert forall|r: nat| b <= r <= 64 implies #[trigger] popcount_low(m, r) + popcount_low(x, b as nat) == popcount_low(x, r) by {
        lemma_masked_high_rec(x, m, b, r);
    }
}
/// bit r of word w is set and exactly k ones precede it  ==>  it is the k-th one
pub proof fn lemma_sel_in_word(hb: Seq<u64>, w: int, r: u32, k: nat)
    requires 0 <= w < hb.len(), r < 64, (hb[w] >> (r as u64)) & 1 == 1, ones(hb, 0, w) + popcount_low(hb[w], r as nat) == k
    ensures sel(hb, k, 64 * w + r)
{
    lemma_rank1_bits_split(hb, w as nat, r as nat);
    assert(popcount_low(hb[w], 0) == 0);
    assert((64 * w + r) / 64 == w && (64 * w + r) % 64 == r as int) by (nonlinear_arith) requires 0 <= w, r < 64;
}
/// a sample at position p of rank c: whole words below p/64 plus the low p%64 bits of its word hold c ones
pub proof fn lemma_sel_split(hb: Seq<u64>, c: nat, p: int)
    requires sel(hb, c, p)
    ensures p / 64 < hb.len(), ones(hb, 0, p / 64) + popcount_low(hb[p / 64], (p % 64) as nat) == c
{
    lemma_rank1_bits_split(hb, (p / 64) as nat, (p % 64) as nat);
    assert(popcount_low(hb[p / 64], 0) == 0);
}
pub proof fn lemma_masked_high_rec(x: u64, m: u64, b: u64, r: nat)
    requires b < 64, r <= 64, forall|j: u64| j < 64 ==> ((#[trigger] (m >> j)) & 1 == 1) == (j >= b && (x >> j) & 1 == 1)
    ensures popcount_low(m, r) + popcount_low(x, if r < b { r } else { b as nat }) == popcount_low(x, r)
    decreases r
{
    if r > 0 {
        lemma_masked_high_rec(x, m, b, (r - 1) as nat);
        let j = (r - 1) as u64;
        assert(((m >> j) & 1 == 1) == (j >= b && (x >> j) & 1 == 1));
    }
}
