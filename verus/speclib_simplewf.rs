// Meaning of a simple-cursor index (shared by unit c05_simple, which proves the builders establish it, and unit
// c32_simple, whose navigation contracts assume it). Needs speclib_bits.rs / speclib_rank.rs (bit, rank1_bits).

pub open spec fn v_open(c: u8) -> bool { c == 0x7B || c == 0x5B }
pub open spec fn v_close(c: u8) -> bool { c == 0x7D || c == 0x5D }
pub open spec fn v_delim(c: u8) -> bool { c == 0x2C || c == 0x3A }
/// rank of the interest bits as an int
pub open spec fn rk(ib: Seq<u64>, p: int) -> int { rank1_bits(ib, p as nat) as int }
/// interest bits `ib` (ib_len of them) and BP words `bw` (bp_len bits) index the text `json`: every interest bit sits on a
/// structural character, there are two BP bits per interest bit, and pair j is 11 / 00 / 01 for the j-th structural
/// character being an open / close / delimiter
pub open spec fn simple_wf_raw(ib: Seq<u64>, ib_len: int, bw: Seq<u64>, bp_len: int, json: Seq<u8>) -> bool {
    let l = json.len() as int;
    &&& ib_len == l && l <= 64 * ib.len() && ib.len() <= 0x100_0000
    &&& bp_len == 2 * rk(ib, l) && bp_len <= 64 * bw.len() && bp_len <= 0x4000_0000
    &&& forall|p: int| 0 <= p < l && #[trigger] bit(ib, p) ==> (v_open(json[p]) || v_close(json[p]) || v_delim(json[p]))
    &&& forall|p: int| 0 <= p < l && #[trigger] bit(ib, p) ==> bit(bw, 2 * rk(ib, p)) == v_open(json[p])
            && bit(bw, 2 * rk(ib, p) + 1) == !v_close(json[p])
}
