// ---- appended by /verif (cfg(kani) only): Elias-Fano queries and cursor, inductive in the operation history,
// bounded in data (4 high-bit words, no low bits) (C03)
#[cfg(kani)]
#[allow(unused, unsafe_code)]
pub(crate) mod __verif_kani {
    use super::*;


    /// a VALID Elias-Fano encoding of a short non-decreasing sequence of small values (n <= 8, values <= 50):
    /// low_width 0, one word of high bits with bit (v_i + i) set, one select sample. Used by other modules'
    /// bounded harnesses in place of EliasFano::build, whose symbolic allocation sizes exhaust CBMC's memory;
    /// the QUERIES that then run on it are the real ones.
    pub(crate) fn small_valid_ef(values: &[u32]) -> EliasFano {
        let mut w = 0u64;
        let mut i = 0;
        while i < values.len() { w |= 1u64 << (values[i] as usize + i); i += 1; }
        let first = if values.is_empty() { 0 } else { values[0] };
        let universe = if values.is_empty() { 0 } else { values[values.len() - 1] as u64 + 1 };
        EliasFano { low_bits: Vec::new(), low_width: 0, high_bits: if values.is_empty() { Vec::new() } else { vec![w] },
                    len: values.len(), universe, select_samples: if values.is_empty() { Vec::new() } else { vec![first] } }
    }

    /// proved contract of select_in_word (c02_select_in_word_dispatch == c02_select_in_word_ctz == definition), written
    /// as the clear-lowest-bit loop so that its iteration count is bounded by the number of ones (<= MAXONES here)
    fn contract_select_in_word(x: u64, k: u32) -> u32 {
        let mut v = x;
        let mut r = k;
        let mut guard = 0;
        while guard <= MAXONES {
            if v == 0 { return 64; }
            if r == 0 { return v.trailing_zeros(); }
            r -= 1;
            v &= v - 1;
            guard += 1;
        }
        64
    }
    const MAXONES: u32 = 4;
    fn contract_block_popcount(block: &[u64]) -> usize {
        let mut t = 0usize;
        let mut i = 0;
        while i < block.len() { t += block[i].count_ones() as usize; i += 1; }
        t
    }

    /// position of the k-th one in the 4-word bitmap (definition: word by word, then select inside the word)
    fn ref_select<const NW: usize>(h: &[u64; NW], k: usize) -> usize {
        let mut seen = 0usize;
        let mut w = 0;
        while w < NW {
            let c = h[w].count_ones() as usize;
            if k < seen + c { return w * 64 + contract_select_in_word(h[w], (k - seen) as u32) as usize; }
            seen += c;
            w += 1;
        }
        NW * 64
    }
    fn total<const NW: usize>(h: &[u64; NW]) -> usize {
        let mut t = 0; let mut w = 0;
        while w < NW { t += h[w].count_ones() as usize; w += 1; }
        t
    }

    /// an EliasFano with arbitrary high bits (>= 1 one), no low bits: element i is ref_select(i) - i
    fn any_ef<const NW: usize>() -> ([u64; NW], usize, EliasFano) {
        let h: [u64; NW] = kani::any();
        let mut w = 0;
        while w < NW { kani::assume(h[w].count_ones() <= MAXONES); w += 1; }
        let len = total(&h);
        kani::assume(len >= 1);
        let first = ref_select(&h, 0);
        let mut high_bits = Vec::with_capacity(NW);
        let mut w = 0;
        while w < NW { high_bits.push(h[w]); w += 1; }
        let ef = EliasFano { low_bits: Vec::new(), low_width: 0, high_bits, len, universe: 0, select_samples: vec![first as u32] };
        (h, len, ef)
    }
    fn val<const NW: usize>(h: &[u64; NW], i: usize) -> u32 { (ref_select(h, i) - i) as u32 }

    /// cursor invariant: exhausted, or positioned exactly on element idx with the remaining-bits cache consistent
    fn inv<const NW: usize>(h: &[u64; NW], len: usize, c: &EliasFanoCursor<'_>) -> bool {
        if c.idx >= len { return true; }
        let p = ref_select(h, c.idx);
        c.high_pos == p && c.word_idx == p / 64 && c.remaining_bits == h[p / 64] & !((1u64 << (p % 64)) - 1)
    }
    fn any_cursor<'a, const NW: usize>(h: &[u64; NW], len: usize, ef: &'a EliasFano) -> EliasFanoCursor<'a> {
        let idx: usize = kani::any();
        kani::assume(idx <= len);
        if idx == len {
            // exhausted cursors carry arbitrary cache fields
            EliasFanoCursor { ef, idx, high_pos: kani::any(), word_idx: kani::any(), remaining_bits: kani::any() }
        } else {
            let p = ref_select(h, idx);
            EliasFanoCursor { ef, idx, high_pos: p, word_idx: p / 64, remaining_bits: h[p / 64] & !((1u64 << (p % 64)) - 1) }
        }
    }
    fn check_after<const NW: usize>(h: &[u64; NW], len: usize, c: &EliasFanoCursor<'_>, r: Option<u32>, target: usize) {
        let t = if target < len { target } else { len };
        assert!(c.index() == t);
        assert!(inv(h, len, c));
        if t < len { assert!(r == Some(val(h, t))); assert!(c.current() == r); } else { assert!(r.is_none() && c.current().is_none() && c.is_exhausted()); }
    }

    //@ kind=B props=C03 bound=4_high_words(256_bits)_each_with_at_most_4_ones_at_arbitrary_positions,low_width=0 fn=EliasFanoCursor::advance_one : from ANY cursor satisfying the invariant (any index, or exhausted): afterwards index == min(idx+1,len), the returned element is element idx+1 of the sequence (None when exhausted), and the invariant holds again
    #[kani::proof]
    #[kani::unwind(10)]
    #[kani::stub(crate::util::broadword::select_in_word, contract_select_in_word)]
    #[kani::stub(crate::bits::scan::block_popcount, contract_block_popcount)]
    pub fn c03_cursor_advance_one() {
        let (h, len, ef) = any_ef::<4>();
        let mut c = any_cursor(&h, len, &ef);
        let i0 = c.idx;
        let r = c.advance_one();
        check_after(&h, len, &c, r, i0 + 1);
    }

    //@ kind=B props=C03 bound=2_high_words(128_bits)_each_with_at_most_4_ones_at_arbitrary_positions,low_width=0 fn=EliasFanoCursor::advance_by : from ANY cursor satisfying the invariant and for EVERY k: usize (including k == 0, 1, > 64 and values that would overflow idx + k): index == min(idx+k,len), element == element idx+k (None when exhausted), invariant holds again
    #[kani::proof]
    #[kani::unwind(10)]
    #[kani::stub(crate::util::broadword::select_in_word, contract_select_in_word)]
    #[kani::stub(crate::bits::scan::block_popcount, contract_block_popcount)]
    pub fn c03_cursor_advance_by() {
        const NW: usize = 2;
        let (h, len, ef) = any_ef::<2>();
        let mut c = any_cursor(&h, len, &ef);
        let i0 = c.idx;
        let k: usize = kani::any();
        let r = c.advance_by(k);
        let target = if k > NW * 64 + 1 { NW * 64 + 1 } else { i0 + k };
        check_after(&h, len, &c, r, target);
    }

    macro_rules! ef_case {
        ($name:ident, $body:expr) => {
            #[kani::proof]
            #[kani::unwind(10)]
            #[kani::stub(crate::util::broadword::select_in_word, contract_select_in_word)]
            #[kani::stub(crate::bits::scan::block_popcount, contract_block_popcount)]
            pub fn $name() {
                let (h, len, ef) = any_ef::<2>();
                let j: usize = kani::any();
                let f: fn(&[u64; 2], usize, &EliasFano, usize) = $body;
                f(&h, len, &ef, j);
            }
        };
    }
    //@ kind=B props=C03 tier=thorough bound=2_high_words(128_bits)_each_with_at_most_4_ones_at_arbitrary_positions,low_width=0 fn=EliasFanoCursor::seek : from ANY cursor satisfying the invariant: seek(j) for every j: usize lands on element j (or exhausted) and re-establishes the invariant
    ef_case!(c03_cursor_seek, |h, len, ef, j| { let mut c = any_cursor(h, len, ef); let r = c.seek(j); check_after(h, len, &c, r, j); });
    //@ kind=B props=C03 tier=thorough bound=2_high_words(128_bits)_each_with_at_most_4_ones_at_arbitrary_positions,low_width=0 fn=EliasFano::cursor_from : cursor_from(j) for every j establishes the invariant on element j (or exhausted)
    ef_case!(c03_cursor_from, |h, len, ef, j| { let c = ef.cursor_from(j); let r = c.current(); check_after(h, len, &c, r, j); });
    //@ kind=B props=C03 bound=2_high_words(128_bits)_each_with_at_most_4_ones_at_arbitrary_positions,low_width=0 fn=EliasFano::cursor : cursor() establishes the invariant on element 0
    ef_case!(c03_cursor_new, |h, len, ef, j| { let c = ef.cursor(); let r = c.current(); check_after(h, len, &c, r, 0); });
    //@ kind=B props=C03 tier=thorough bound=2_high_words(128_bits)_each_with_at_most_4_ones_at_arbitrary_positions,low_width=0 fn=EliasFano::{get,len} : get(j) == element j (None past the end) for every j: usize; len
    ef_case!(c03_get, |h, len, ef, j| {
        let g = ef.get(j);
        if j < len { assert!(g == Some(val(h, j))); } else { assert!(g.is_none()); }
        assert!(ef.len() == len);
    });
    //@ kind=B props=C03 tier=thorough bound=2_high_words(128_bits)_each_with_at_most_4_ones_at_arbitrary_positions,low_width=0 fn=EliasFano::predecessor : predecessor(v) for every v: u32 is the last index holding the largest element <= v (None if all are greater)
    ef_case!(c03_predecessor, |h, len, ef, j| {
        let v: u32 = kani::any();
        let p = ef.predecessor(v);
        let mut best: Option<(usize, u32)> = None;
        let mut i = 0;
        while i < 8 { if i < len { let x = val(h, i); if x <= v { best = Some((i, x)); } } i += 1; }
        assert!(p == best);
    });

    //@ kind=P props=C03 fn=u64::leading_zeros : cross-check of the trusted Verus lemma axiom_lz_top_bit (unit c03_build): for every non-zero word the bit at position 63 - leading_zeros is set and everything above it is clear
    #[kani::proof]
    pub fn c03_leading_zeros_top_bit() {
        let q: u64 = kani::any();
        kani::assume(q != 0);
        let lz = q.leading_zeros();
        assert!(lz <= 63);
        assert!((q >> (63 - lz)) & 1 == 1);
        assert!(lz == 0 || q >> (64 - lz) == 0);
    }
}
