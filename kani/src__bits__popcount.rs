// ---- appended by /verif (cfg(kani) only): word/byte popcount contracts (C02, C01)
#[cfg(kani)]
#[allow(unused, unsafe_code)]
mod __verif_kani {
    use super::*;
    use crate::__verif_models::*;

    //@ kind=P props=C02,C01 fn=popcount_word_portable : == bit-at-a-time popcount for all x:u64 (SWAR constants, shifts, multiply)
    #[kani::proof]
    #[kani::unwind(65)]
    pub fn c02_popcount_word_portable() {
        let x: u64 = kani::any();
        assert!(popcount_word_portable(x) == ref_popcount(x));
    }

    //@ kind=P props=C02,C01 fn=popcount_word : == bit-at-a-time popcount for all x:u64 (body selected by the cargo features of this build)
    #[kani::proof]
    #[kani::unwind(65)]
    pub fn c02_popcount_word() {
        let x: u64 = kani::any();
        assert!(popcount_word(x) == ref_popcount(x));
    }

    //@ kind=P props=C02 fn=u8::count_ones : single-byte popcount == bit-at-a-time count for all 256 bytes (also through popcount_word on a zero-extended byte)
    #[kani::proof]
    #[kani::unwind(9)]
    pub fn c02_popcount_byte() {
        let b: u8 = kani::any();
        let mut c = 0u32;
        let mut i = 0;
        while i < 8 { if (b >> i) & 1 == 1 { c += 1; } i += 1; }
        assert!(b.count_ones() == c);
        assert!(popcount_word(b as u64) == c);
        assert!(popcount_word_portable(b as u64) == c);
    }

    //@ kind=P props=C02,C01 fn=popcount_words bound=none : popcount_words of an 8-word block == sum of per-word count_ones (proved == bit-at-a-time popcount by c02_count_ones_is_popcount) (dispatch of this build's feature set); longer slices are the Verus unit's job
    #[kani::proof]
    #[kani::unwind(65)]
    pub fn c02_popcount_words_block8() {
        let w: [u64; 8] = kani::any();
        let mut t = 0usize;
        let mut i = 0;
        while i < 8 { t += w[i].count_ones() as usize; i += 1; }
        assert!(popcount_words(&w) == t);
    }
}
