// ---- appended by /verif (cfg(kani) only): LineIndex construction + cache, bounded twin of the Verus unit c12_lines (C12)
#[cfg(kani)]
#[allow(unused, unsafe_code)]
mod __verif_kani {
    use super::*;

    /// naive scan: LF, CR and CRLF are single breaks; a break at the very end starts no line
    fn naive(text: &[u8], offset: usize) -> (usize, usize) {
        let mut line = 1usize;
        let mut start = 0usize;
        let mut i = 0usize;
        while i < text.len() {
            let w = if text[i] == b'\r' && i + 1 < text.len() && text[i + 1] == b'\n' { 2 } else if text[i] == b'\r' || text[i] == b'\n' { 1 } else { 0 };
            if w == 0 { i += 1; continue; }
            i += w;
            if i < text.len() && i <= offset { line += 1; start = i; }
        }
        (line, offset - start + 1)
    }

    fn any_text<const N: usize>() -> [u8; N] {
        // alphabet rich in CR/LF: every byte is one of \n, \r, 'a'
        let mut t = [0u8; N];
        let mut i = 0;
        while i < N { let k: u8 = kani::any(); t[i] = match k % 3 { 0 => b'\n', 1 => b'\r', _ => b'a' }; i += 1; }
        t
    }

    fn model_ef_build(values: &[u32]) -> EliasFano { crate::bits::__verif_small_valid_ef(values) }

    //@ kind=B props=C12 tier=thorough bound=text_len=6_over_{LF,CR,a},2_queries,EliasFano::build_replaced_by_a_valid_small_encoding fn=LineIndex::{build,to_line_column,to_offset} : for all 3^6 texts over {LF,CR,'a'} and ANY two consecutive queries (so the second runs against whatever cache the first left): both answers equal the naive scan; to_offset inverts in-bounds answers and is None past the end
    #[kani::proof]
    #[kani::unwind(20)]
    #[kani::stub(crate::bits::EliasFano::build, model_ef_build)]
    pub fn c12_build_and_two_queries_len6() {
        let text: [u8; 6] = any_text::<6>();
        let li = LineIndex::build(&text);
        let o1: usize = kani::any();
        let o2: usize = kani::any();
        kani::assume(o1 <= 9 && o2 <= 9);
        assert!(li.to_line_column(o1) == naive(&text, o1));
        let (l, c) = li.to_line_column(o2);
        assert!((l, c) == naive(&text, o2));
        if o2 < 6 { assert!(li.to_offset(l, c) == Some(o2)); } else { assert!(li.to_offset(l, c).is_none()); }
    }
}
