// ---- appended by /verif (cfg(kani) only): bounded twin of the Verus with_config contract (C01).
// BOUNDED stand-in (kind=B): catches changes to the construction code that alter its shape so much that the Verus
// extraction declines (exit 2); never counted as proved.
#[cfg(kani)]
#[allow(unused, unsafe_code)]
mod __verif_kani {
    use super::*;

    /// ones among the first len bits, word by word (count_ones is proved == bit-at-a-time popcount by c02_count_ones_is_popcount)
    fn naive_ones(w: &[u64; 4], len: usize) -> usize {
        let mut c = 0;
        let mut i = 0;
        while i < 4 {
            if (i + 1) * 64 <= len { c += w[i].count_ones() as usize; }
            else if i * 64 < len { c += (w[i] & ((1u64 << (len - i * 64)) - 1)).count_ones() as usize; }
            i += 1;
        }
        c
    }

    fn contract_block_popcount(block: &[u64]) -> usize {
        let mut t = 0usize;
        let mut i = 0;
        while i < block.len() { t += block[i].count_ones() as usize; i += 1; }
        t
    }

    fn with_config_case(len: usize) {
        let w: [u64; 4] = kani::any();
        let bv = BitVec::with_config(vec![w[0], w[1], w[2], w[3]], len, Config { select_sample_rate: 256 });
        let n = naive_ones(&w, len);
        assert!(bv.count_ones() == n);
        assert!(bv.count_zeros() == len - n);
        assert!(bv.rank1(usize::MAX) == n);
        let mut i = 0;
        while i < 4 {
            if i * 64 >= len { assert!(bv.word(i) == 0); }
            else if i * 64 + 64 <= len { assert!(bv.word(i) == w[i]); }
            i += 1;
        }
    }

    //@ kind=B props=C01 tier=thorough bound=4_words,len=0 fn=BitVec::with_config : 4 symbolic words, len=0: count_ones/count_zeros/rank1(past len) equal the count over the first len bits; every stored word at or past len is zero, every full word below len unchanged
    #[kani::proof]
    #[kani::unwind(10)]
    #[kani::stub(crate::bits::scan::block_popcount, contract_block_popcount)]
    pub fn c01_with_config_len0() { with_config_case(0); }

    //@ kind=B props=C01 tier=thorough bound=4_words,len=64 fn=BitVec::with_config : 4 symbolic words, len=64: count_ones/count_zeros/rank1(past len) equal the count over the first len bits; every stored word at or past len is zero, every full word below len unchanged
    #[kani::proof]
    #[kani::unwind(10)]
    #[kani::stub(crate::bits::scan::block_popcount, contract_block_popcount)]
    pub fn c01_with_config_len64() { with_config_case(64); }

    //@ kind=B props=C01 bound=4_words,len=70 fn=BitVec::with_config : 4 symbolic words, len=70: count_ones/count_zeros/rank1(past len) equal the count over the first len bits; every stored word at or past len is zero, every full word below len unchanged
    #[kani::proof]
    #[kani::unwind(10)]
    #[kani::stub(crate::bits::scan::block_popcount, contract_block_popcount)]
    pub fn c01_with_config_len70() { with_config_case(70); }

    //@ kind=B props=C01 tier=thorough bound=4_words,len=128 fn=BitVec::with_config : 4 symbolic words, len=128: count_ones/count_zeros/rank1(past len) equal the count over the first len bits; every stored word at or past len is zero, every full word below len unchanged
    #[kani::proof]
    #[kani::unwind(10)]
    #[kani::stub(crate::bits::scan::block_popcount, contract_block_popcount)]
    pub fn c01_with_config_len128() { with_config_case(128); }

    //@ kind=B props=C01 tier=thorough bound=4_words,len=256 fn=BitVec::with_config : 4 symbolic words, len=256: count_ones/count_zeros/rank1(past len) equal the count over the first len bits; every stored word at or past len is zero, every full word below len unchanged
    #[kani::proof]
    #[kani::unwind(10)]
    #[kani::stub(crate::bits::scan::block_popcount, contract_block_popcount)]
    pub fn c01_with_config_len256() { with_config_case(256); }
}
