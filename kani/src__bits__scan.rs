// ---- appended by /verif (cfg(kani) only): 8-word block popcount kernels (C02, C01)
#[cfg(kani)]
#[allow(unused, unsafe_code)]
mod __verif_kani {
    use super::*;
    use crate::__verif_models::*;

    // per-word reference is count_ones, proved == bit-at-a-time popcount for all words by c02_count_ones_is_popcount
    fn ref_block(w: &[u64; 8]) -> usize {
        let mut t = 0usize;
        let mut i = 0;
        while i < 8 { t += w[i].count_ones() as usize; i += 1; }
        t
    }
    fn any_bool() -> bool { kani::any() }

    //@ kind=P props=C02,C01 fn=block_popcount_portable : == sum over the 8 words of count_ones (itself proved == bit-at-a-time popcount) for all blocks
    #[kani::proof]
    #[kani::unwind(65)]
    pub fn c02_block_popcount_portable() {
        let w: [u64; 8] = kani::any();
        assert!(block_popcount_portable(&w) == ref_block(&w));
    }

    // The AVX2 kernel and the bit-at-a-time definition are two different 512-input adder trees; their direct
    // equivalence is SAT-hard (no answer in 20 min). The contract is therefore discharged in three complete steps
    // whose composition is plain arithmetic:
    //   (A) kernel(w) == shape_sum(c) where c[i] = count_ones(byte i of the block) and shape_sum adds in the
    //       kernel's own order (two 32-byte vectors added lane-wise in u8, psadbw groups of 8, four lanes);
    //   (B) for ANY 64 byte counts <= 8, shape_sum(c) == c[0]+...+c[63] added in word order: B1 per lane,
    //       B2 the final 4-lane reduction;
    //   (C) for any word, count_ones(w) == sum of count_ones of its 8 bytes == ref_popcount(w)
    //       (c02_count_ones_is_popcount).
    fn lane_sum(c: &[u8; 64], l: usize) -> u64 {
        let mut lane = 0u64;
        let mut j = 0;
        while j < 8 {
            let acc: u8 = c[l * 8 + j].wrapping_add(c[32 + l * 8 + j]);
            lane += acc as u64;
            j += 1;
        }
        lane
    }
    fn shape_sum(c: &[u8; 64]) -> usize {
        (lane_sum(c, 0) + lane_sum(c, 1) + lane_sum(c, 2) + lane_sum(c, 3)) as usize
    }
    fn word_sum(c: &[u8; 64], w: usize) -> u64 {
        let mut t = 0u64;
        let mut j = 0;
        while j < 8 { t += c[w * 8 + j] as u64; j += 1; }
        t
    }

    //@ kind=P props=C02,C01 fn=block_popcount_avx2 stubs=_mm256_shuffle_epi8,_mm256_sad_epu8 : step A: for all 8-word blocks, kernel == sum of per-byte count_ones added in the kernel's lane order
    #[kani::proof]
    #[kani::unwind(65)]
    #[kani::stub(core::arch::x86_64::_mm256_shuffle_epi8, crate::__verif_models::model_mm256_shuffle_epi8)]
    #[kani::stub(core::arch::x86_64::_mm256_sad_epu8, crate::__verif_models::model_mm256_sad_epu8)]
    pub fn c02_block_popcount_avx2_bytes() {
        let w: [u64; 8] = kani::any();
        let mut c = [0u8; 64];
        let mut i = 0;
        while i < 64 {
            c[i] = ((w[i / 8] >> ((i % 8) * 8)) as u8).count_ones() as u8;
            i += 1;
        }
        assert!(unsafe { block_popcount_avx2(&w) } == shape_sum(&c));
    }

    //@ kind=P props=C02,C01 fn=block_popcount_avx2 : step B1: for any 64 byte counts (each <= 8) and each lane l<4, the kernel's lane sum == (sum of word l's bytes) + (sum of word l+4's bytes)
    #[kani::proof]
    #[kani::unwind(65)]
    pub fn c02_block_popcount_avx2_lane() {
        let c: [u8; 64] = kani::any();
        let mut i = 0;
        while i < 64 { kani::assume(c[i] <= 8); i += 1; }
        let l: usize = kani::any();
        kani::assume(l < 4);
        assert!(lane_sum(&c, l) == word_sum(&c, l) + word_sum(&c, l + 4));
    }

    //@ kind=P props=C02,C01 fn=block_popcount_avx2 : step B2: for any 8 word sums W (each <= 64), (W0+W4)+(W1+W5)+(W2+W6)+(W3+W7) == W0+W1+...+W7 (the kernel's final reduction order vs word order)
    #[kani::proof]
    #[kani::unwind(9)]
    #[kani::solver(z3)]
    pub fn c02_block_popcount_avx2_order() {
        // word sums are <= 64, so every partial sum is < 2^10: u16 arithmetic is exact here (checked: no overflow)
        let w: [u16; 8] = kani::any();
        let mut i = 0;
        while i < 8 { kani::assume(w[i] <= 64); i += 1; }
        let mut t = 0u16;
        let mut i = 0;
        while i < 8 { t += w[i]; i += 1; }
        assert!((w[0] + w[4]) + (w[1] + w[5]) + (w[2] + w[6]) + (w[3] + w[7]) == t);
    }

    //@ kind=P props=C02,C01 fn=u64::count_ones : step C: count_ones(w) == sum over its 8 bytes of count_ones(byte), all w
    #[kani::proof]
    #[kani::unwind(9)]
    pub fn c02_word_popcount_is_byte_sum() {
        let w: u64 = kani::any();
        let mut t = 0u32;
        let mut j = 0;
        while j < 8 { t += ((w >> (j * 8)) as u8).count_ones(); j += 1; }
        assert!(w.count_ones() == t);
    }

    fn contract_block_popcount_avx2(block: &[u64]) -> usize {
        // contract of block_popcount_avx2 as established by steps A-C: sum of per-word popcounts
        let mut t = 0usize;
        let mut i = 0;
        while i < 8 { t += block[i].count_ones() as usize; i += 1; }
        t
    }

    //@ kind=P props=C02,C01 fn=block_popcount stubs=has_avx2,block_popcount_avx2(contract) : dispatcher == sum of per-word count_ones for all 8-word blocks, AVX2 flag nondeterministic; the AVX2 callee is replaced by its proved contract
    #[kani::proof]
    #[kani::unwind(65)]
    #[kani::stub(has_avx2, any_bool)]
    #[kani::stub(block_popcount_avx2, contract_block_popcount_avx2)]
    pub fn c02_block_popcount_dispatch() {
        let w: [u64; 8] = kani::any();
        let mut t = 0usize;
        let mut i = 0;
        while i < 8 { t += w[i].count_ones() as usize; i += 1; }
        assert!(block_popcount(&w) == t);
    }
}
