// ---- appended by /verif (cfg(kani) only): reference state machine access + PFSM tables (C05)
#[cfg(kani)]
#[allow(unused, unsafe_code)]
pub(crate) mod __verif_kani {
    use super::*;
    use crate::json::pfsm_tables::{PfsmState, PHI_TABLE, TRANSITION_TABLE};

    /// the reference byte-at-a-time machine of this file, exposed to the harnesses of the SIMD engines:
    /// returns (next state, ib, bp_open, bp_close)
    pub(crate) fn ref_step(c: u8, s: State) -> (State, bool, bool, bool) {
        let (ns, phi) = state_machine(c, s);
        (ns, phi.ib(), phi.bp_open(), phi.bp_close())
    }
    pub(crate) fn any_state() -> State {
        let k: u8 = kani::any();
        match k & 3 { 0 => State::InJson, 1 => State::InString, 2 => State::InEscape, _ => State::InValue }
    }

    /// state_machine against the wording of the machine (independent restatement: structural characters,
    /// value characters, strings with backslash escapes) -- guards the oracle itself against edits
    //@ kind=P props=C05 fn=json::standard::state_machine : for all 256 bytes x 4 states the reference machine equals its definition: in InJson/InValue '{' '[' open (IB,BP1), '}' ']' close (BP0), ',' ':' nothing, value chars [A-Za-z0-9.+-] start a leaf (IB,BP1,BP0) only from InJson, '"' starts a string leaf from InJson; InString ends at '"', '\\' escapes exactly one byte
    #[kani::proof]
    pub fn c05_reference_machine_definition() {
        let c: u8 = kani::any();
        let s = any_state();
        let (ns, ib, op, cl) = ref_step(c, s);
        let open = c == b'{' || c == b'[';
        let close = c == b'}' || c == b']';
        let delim = c == b',' || c == b':';
        let valc = (c >= b'a' && c <= b'z') || (c >= b'A' && c <= b'Z') || (c >= b'0' && c <= b'9') || c == b'.' || c == b'-' || c == b'+';
        match s {
            State::InString => {
                assert!(!ib && !op && !cl);
                assert!(ns == if c == b'"' { State::InJson } else if c == b'\\' { State::InEscape } else { State::InString });
            }
            State::InEscape => { assert!(!ib && !op && !cl && ns == State::InString); }
            State::InJson | State::InValue => {
                if open { assert!(ib && op && !cl && ns == State::InJson); }
                else if close { assert!(!ib && !op && cl && ns == State::InJson); }
                else if delim { assert!(!ib && !op && !cl && ns == State::InJson); }
                else if valc {
                    if s == State::InJson { assert!(ib && op && cl && ns == State::InValue); }
                    else { assert!(!ib && !op && !cl && ns == State::InValue); }
                } else if c == b'"' && s == State::InJson { assert!(ib && op && cl && ns == State::InString); }
                else { assert!(!ib && !op && !cl && ns == State::InJson); }
            }
        }
    }

    //@ kind=P props=C05 fn=json::pfsm_tables::{TRANSITION_TABLE,PHI_TABLE,extract_next_state,extract_phi} : for all 256 bytes x 4 states the table-driven step (next state, phi bits) equals the reference state machine
    #[kani::proof]
    pub fn c05_pfsm_tables_are_reference() {
        let c: u8 = kani::any();
        let s = any_state();
        let ps = match s { State::InJson => PfsmState::InJson, State::InString => PfsmState::InString,
                           State::InEscape => PfsmState::InEscape, State::InValue => PfsmState::InValue };
        let phi = PfsmState::extract_phi(PHI_TABLE[c as usize], ps);
        let nps = PfsmState::extract_next_state(TRANSITION_TABLE[c as usize], ps);
        let (ns, ib, op, cl) = ref_step(c, s);
        assert!((phi & 1 != 0) == cl);
        assert!(((phi >> 1) & 1 != 0) == op);
        assert!(((phi >> 2) & 1 != 0) == ib);
        assert!(phi < 8);
        let nps_as = match nps { PfsmState::InJson => State::InJson, PfsmState::InString => State::InString,
                                 PfsmState::InEscape => State::InEscape, PfsmState::InValue => State::InValue };
        assert!(nps_as == ns);
    }
}
