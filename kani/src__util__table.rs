// ---- appended by /verif (cfg(kani) only): byte select table (C02)
#[cfg(kani)]
#[allow(unused, unsafe_code)]
mod __verif_kani {
    use super::*;

    fn ref_select_in_byte(b: u8, k: u32) -> u32 {
        let mut c = 0u32;
        let mut i = 0u32;
        while i < 8 {
            if (b >> i) & 1 == 1 {
                if c == k { return i; }
                c += 1;
            }
            i += 1;
        }
        8
    }

    //@ kind=P props=C02 fn=select_in_byte : select_in_byte(b,k) (and so every SELECT_IN_BYTE_TABLE row) == bit-loop select for all b:u8, k:u32
    #[kani::proof]
    #[kani::unwind(9)]
    pub fn c02_select_in_byte_table() {
        let b: u8 = kani::any();
        let k: u32 = kani::any();
        assert!(select_in_byte(b, k) == ref_select_in_byte(b, k));
    }
}
