// ---- appended by /verif (cfg(kani) only): DSV rows/fields vs quote-aware splitting, bounded (C21)
#[cfg(kani)]
#[allow(unused, unsafe_code)]
mod __verif_kani {
    use super::*;
    use crate::dsv::DsvConfig;

    const MAXF: usize = 6; // more fields than a 5-byte text can hold

    #[derive(Clone, Copy, PartialEq, Eq)]
    struct F { row: usize, start: usize, end: usize }

    /// DEFINITION (property text): rows are split at record separators outside quotes (a final separator starts no
    /// extra row), then fields at delimiters outside quotes; every field, including empty ones at the end of a row, is
    /// its raw byte range.
    fn split_spec(text: &[u8], d: u8, q: u8, n: u8) -> ([F; MAXF], usize) {
        let mut out = [F { row: 0, start: 0, end: 0 }; MAXF];
        let mut cnt = 0;
        if text.is_empty() { return (out, 0); }
        let mut inq = false; let mut row = 0; let mut start = 0; let mut i = 0;
        while i < text.len() {
            let b = text[i];
            if b == q { inq = !inq; }
            if !inq && (b == n || b == d) {
                out[cnt] = F { row, start, end: i }; cnt += 1;
                start = i + 1;
                if b == n { row += 1; if i + 1 == text.len() { return (out, cnt); } }
            }
            i += 1;
        }
        out[cnt] = F { row, start, end: text.len() }; cnt += 1;
        (out, cnt)
    }

    fn same_bytes(f: &[u8], text: &[u8], s: usize, e: usize) -> bool {
        if f.len() != e - s { return false; }
        let mut i = 0;
        while i < f.len() { if f[i] != text[s + i] { return false; } i += 1; }
        true
    }

    fn any_cfg() -> DsvConfig {
        let d: u8 = kani::any(); let q: u8 = kani::any(); let n: u8 = kani::any();
        kani::assume(d != q && q != n && d != n && d != b'a' && q != b'a' && n != b'a');
        let mut c = DsvConfig::default(); c.delimiter = d; c.quote_char = q; c.newline = n; c
    }
    fn any_text<const N: usize>(c: &DsvConfig) -> [u8; N] {
        let mut t = [0u8; N]; let mut i = 0;
        while i < N { let k: u8 = kani::any(); t[i] = match k % 4 { 0 => c.delimiter, 1 => c.quote_char, 2 => c.newline, _ => b'a' }; i += 1; }
        t
    }
    /// the known-finding region F1: the text ends with an unquoted delimiter (so its last field is empty and no record
    /// separator follows)
    fn ends_with_unquoted_delimiter(text: &[u8], c: &DsvConfig) -> bool {
        if text.is_empty() { return false; }
        let mut inq = false; let mut i = 0;
        while i + 1 < text.len() { if text[i] == c.quote_char { inq = !inq; } i += 1; }
        !inq && text[text.len() - 1] == c.delimiter
    }

    fn check_iteration<const N: usize>(text: &[u8; N], c: &DsvConfig) {
        let index = crate::dsv::parser::build_index(text, c);
        let (want, cnt) = split_spec(text, c.delimiter, c.quote_char, c.newline);
        // iteration
        let mut k = 0; let mut row_no = 0;
        let mut rows = DsvRows::new(text, &index);
        let mut guard_r = 0;
        while guard_r <= N + 1 {
            let r = match rows.next() { Some(r) => r, None => break };
            let mut fields = r.fields();
            let mut col = 0; let mut guard_f = 0;
            while guard_f <= N + 1 {
                let f = match fields.next() { Some(f) => f, None => break };
                assert!(k < cnt && want[k].row == row_no);
                assert!(same_bytes(f, text, want[k].start, want[k].end));
                // column access agrees with iteration
                assert!(r.get(col).map(|g| same_bytes(g, text, want[k].start, want[k].end)) == Some(true));
                k += 1; col += 1; guard_f += 1;
            }
            assert!(r.get(col).is_none() || (k < cnt && want[k].row == row_no));
            row_no += 1; guard_r += 1;
        }
        assert!(k == cnt);
        // random access to rows agrees with iteration
        let n_rows = if cnt == 0 { 0 } else { want[cnt - 1].row + 1 };
        let dref = crate::dsv::DsvRef::new(text, &index);
        let rn: usize = kani::any();
        kani::assume(rn <= N + 1);
        match dref.row(rn) {
            None => assert!(rn >= n_rows),
            Some(r) => {
                assert!(rn < n_rows);
                let mut first = 0; while first < cnt && want[first].row != rn { first += 1; }
                let f0 = r.fields().next();
                assert!(f0.map(|g| same_bytes(g, text, want[first].start, want[first].end)) == Some(true));
            }
        }
    }

    fn default_cfg() -> DsvConfig { DsvConfig::default() }

    //@ kind=B props=C21 tier=thorough bound=text_len=4_over_{delimiter,quote,newline,a},all_distinct_configs fn=DsvRows::next,DsvRow::{fields,get},DsvFields::next,DsvCursor::{next_field,next_row,goto_row,current_field,at_newline},Dsv::row : every text of length 4 over the special bytes and 'a', every configuration with distinct special bytes, EXCEPT texts ending with an unquoted delimiter (known finding F1): iterating rows and fields yields exactly the quote-aware split; DsvRow::get(i) and row(n) agree with iteration and are None out of range
    #[kani::proof]
    #[kani::unwind(8)]
    pub fn c21_rows_fields_len4() {
        let c = any_cfg();
        let text: [u8; 4] = any_text::<4>(&c);
        kani::assume(!ends_with_unquoted_delimiter(&text, &c));
        check_iteration::<4>(&text, &c);
    }

    //@ kind=B props=C21 tier=thorough bound=text_len=3_over_{delimiter,quote,newline,a},default_config fn=DsvRows::next,DsvRow::{fields,get},DsvFields::next,DsvCursor::{next_field,next_row,goto_row,current_field,at_newline},DsvRef::row : every 3-byte text over the four symbol classes (default config), except those ending in an unquoted delimiter (F1): iteration and row/column access return exactly the quote-aware split
    #[kani::proof]
    #[kani::unwind(7)]
    pub fn c21_rows_fields_len3_default() {
        let c = default_cfg();
        let text: [u8; 3] = any_text::<3>(&c);
        kani::assume(!ends_with_unquoted_delimiter(&text, &c));
        check_iteration::<3>(&text, &c);
    }

    //@ kind=B props=C21 known=F1 bound=the_text_"a," fn=DsvFields::next,DsvCursor::next_field : property as worded for the text "a," (ends with an unquoted delimiter, no final record separator): the trailing empty field must be returned
    #[kani::proof]
    #[kani::unwind(6)]
    pub fn c21_trailing_empty_field_without_final_newline() {
        let c = default_cfg();
        let text: [u8; 2] = [b'a', c.delimiter];
        check_iteration::<2>(&text, &c);
    }
}
