// ---- appended by /verif (cfg(kani) only): word<->byte casts at every alignment (C31)
#[cfg(kani)]
#[allow(unused, unsafe_code)]
mod __verif_kani {
    use super::*;

    //@ kind=B props=C31 bound=word_vectors_of_length<=2,all_contents fn=words_to_bytes,bytes_to_words : round trip bytes_to_words(words_to_bytes(w)) == w and the bytes are the native-endian bytes of each word, for symbolic word vectors (length <= 2; the cast is length-generic)
    #[kani::proof]
    #[kani::unwind(40)]
    pub fn c31_words_bytes_roundtrip() {
        let w: [u64; 2] = kani::any();
        let n: usize = kani::any();
        kani::assume(n <= 2);
        let b = words_to_bytes(&w[..n]);
        assert!(b.len() == 8 * n);
        let mut i = 0;
        while i < 2 {
            if i < n {
                let e = w[i].to_ne_bytes();
                let mut j = 0;
                while j < 8 { assert!(b[i * 8 + j] == e[j]); j += 1; }
            }
            i += 1;
        }
        let back = bytes_to_words(b);
        assert!(back.len() == n);
        let mut i = 0;
        while i < 2 { if i < n { assert!(back[i] == w[i]); } i += 1; }
        let v = bytes_to_words_vec(b);
        assert!(v.len() == n);
        let mut i = 0;
        while i < 2 { if i < n { assert!(v[i] == w[i]); } i += 1; }
    }

    fn expect_word(buf: &[u8], at: usize) -> u64 {
        let mut a = [0u8; 8];
        let mut j = 0;
        while j < 8 { a[j] = buf[at + j]; j += 1; }
        u64::from_ne_bytes(a)
    }

    //@ kind=B props=C31 bound=lengths_0/8/16_bytes,every_alignment_offset_0..8,all_contents fn=bytes_to_words_vec : for a byte slice starting at ANY offset 0..8 of a buffer (the buffer object is 8-aligned in CBMC, so offsets 0..8 enumerate every alignment) and any length n*8 (n<=2): no panic and the result is the native-endian words
    #[kani::proof]
    #[kani::unwind(40)]
    pub fn c31_bytes_to_words_vec_any_alignment() {
        let buf: [u8; 24] = kani::any();
        let off: usize = kani::any();
        let n: usize = kani::any();
        kani::assume(off < 8 && n <= 2);
        let s = &buf[off..off + 8 * n];
        let v = bytes_to_words_vec(s);
        assert!(v.len() == n);
        let mut i = 0;
        while i < 2 { if i < n { assert!(v[i] == expect_word(&buf, off + 8 * i)); } i += 1; }
    }

    //@ kind=B props=C31 bound=every_length<=31_bytes,every_alignment_offset_0..8,all_contents fn=try_bytes_to_words : for a slice at any offset 0..8 (any alignment) and ANY length <= 31: never panics; None for lengths that are not a multiple of 8; whenever it returns Some the words are the native-endian words
    #[kani::proof]
    #[kani::unwind(40)]
    pub fn c31_try_bytes_to_words_no_panic() {
        let buf: [u8; 40] = kani::any();
        let off: usize = kani::any();
        let len: usize = kani::any();
        kani::assume(off < 8 && len <= 31);
        let s = &buf[off..off + len];
        let r = try_bytes_to_words(s);
        if len % 8 != 0 {
            assert!(r.is_none());
        } else if let Some(v) = r {
            assert!(v.len() == len / 8);
            let mut i = 0;
            while i < 3 { if i < len / 8 { assert!(v[i] == expect_word(&buf, off + 8 * i)); } i += 1; }
        }
    }

    //@ kind=B props=C31 bound=aligned_start,lengths_0..24_bytes,all_contents fn=try_bytes_to_words,bytes_to_words : for a slice whose start address is 8-byte aligned and whose length is n*8 (n<=3): both borrowed forms succeed with the native-endian words
    #[kani::proof]
    #[kani::unwind(40)]
    pub fn c31_borrowed_forms_aligned() {
        let buf: [u8; 40] = kani::any();
        let off: usize = kani::any();
        let n: usize = kani::any();
        kani::assume(off < 8 && n <= 3);
        let s = &buf[off..off + 8 * n];
        kani::assume((s.as_ptr() as usize) % 8 == 0);
        kani::cover!(n == 3, "aligned slices of full length are reachable");
        let r = try_bytes_to_words(s);
        assert!(r.is_some());
        let v = bytes_to_words(s);
        assert!(v.len() == n && r.unwrap().len() == n);
        let mut i = 0;
        while i < 3 { if i < n { assert!(v[i] == expect_word(&buf, off + 8 * i)); } i += 1; }
    }

    //@ kind=B props=C31 known=F7a bound=misaligned_start,lengths<=24_bytes fn=try_bytes_to_words : for a NON-EMPTY slice whose start address is NOT 8-byte aligned and whose length is n*8: the property demands Some(words) (None only for a bad length)
    #[kani::proof]
    #[kani::unwind(40)]
    pub fn c31_try_bytes_to_words_misaligned_start() {
        let buf: [u8; 40] = kani::any();
        let off: usize = kani::any();
        let n: usize = kani::any();
        kani::assume(off < 8 && n >= 1 && n <= 3);
        let s = &buf[off..off + 8 * n];
        kani::assume((s.as_ptr() as usize) % 8 != 0);
        assert!(try_bytes_to_words(s).is_some());
    }

    //@ kind=B props=C31 known=F7b bound=misaligned_start,lengths<=24_bytes fn=bytes_to_words : for a NON-EMPTY slice whose start address is NOT 8-byte aligned and whose length is n*8: the property demands that the conversion succeeds (no panic)
    #[kani::proof]
    #[kani::unwind(40)]
    pub fn c31_bytes_to_words_misaligned_start() {
        let buf: [u8; 40] = kani::any();
        let off: usize = kani::any();
        let n: usize = kani::any();
        kani::assume(off < 8 && n >= 1 && n <= 3);
        let s = &buf[off..off + 8 * n];
        kani::assume((s.as_ptr() as usize) % 8 != 0);
        let v = bytes_to_words(s);
        assert!(v.len() == n);
    }
}
