// ---- appended by /verif (cfg(kani) only): UTF-8 definition (Unicode Table 3-7), scalar validator, code points (C13)
#[cfg(kani)]
#[allow(unused, unsafe_code)]
pub(crate) mod __verif_kani {
    use super::*;

    /// Unicode 15 Table 3-7 "Well-Formed UTF-8 Byte Sequences": length of the well-formed sequence starting at
    /// bytes[pos] within bytes[..n], or 0 if none starts there.
    pub(crate) fn wf_seq_len(b: &[u8], n: usize, pos: usize) -> usize {
        let b0 = b[pos];
        let c = |i: usize, lo: u8, hi: u8| pos + i < n && b[pos + i] >= lo && b[pos + i] <= hi;
        if b0 <= 0x7F { return 1; }
        if b0 >= 0xC2 && b0 <= 0xDF { return if c(1, 0x80, 0xBF) { 2 } else { 0 }; }
        if b0 == 0xE0 { return if c(1, 0xA0, 0xBF) && c(2, 0x80, 0xBF) { 3 } else { 0 }; }
        if (b0 >= 0xE1 && b0 <= 0xEC) || b0 == 0xEE || b0 == 0xEF { return if c(1, 0x80, 0xBF) && c(2, 0x80, 0xBF) { 3 } else { 0 }; }
        if b0 == 0xED { return if c(1, 0x80, 0x9F) && c(2, 0x80, 0xBF) { 3 } else { 0 }; }
        if b0 == 0xF0 { return if c(1, 0x90, 0xBF) && c(2, 0x80, 0xBF) && c(3, 0x80, 0xBF) { 4 } else { 0 }; }
        if b0 >= 0xF1 && b0 <= 0xF3 { return if c(1, 0x80, 0xBF) && c(2, 0x80, 0xBF) && c(3, 0x80, 0xBF) { 4 } else { 0 }; }
        if b0 == 0xF4 { return if c(1, 0x80, 0x8F) && c(2, 0x80, 0xBF) && c(3, 0x80, 0xBF) { 4 } else { 0 }; }
        0
    }
    /// length of the longest prefix of b[..n] that is well-formed UTF-8 (== n iff the whole input is well-formed)
    pub(crate) fn wf_prefix(b: &[u8], n: usize) -> usize {
        let mut pos = 0;
        while pos < n {
            let l = wf_seq_len(b, n, pos);
            if l == 0 { return pos; }
            pos += l;
        }
        n
    }

    //@ kind=P props=C13 fn=encode_code_point,decode_code_point : for EVERY cp: u32: encode is Some iff cp is a Unicode scalar value; the encoding is the Table 3-7 sequence of the right length; decode(encode(cp)) == (cp, len)
    #[kani::proof]
    pub fn c13_encode_decode_roundtrip() {
        let cp: u32 = kani::any();
        let e = encode_code_point(cp);
        let scalar = cp <= 0x10FFFF && !(cp >= 0xD800 && cp <= 0xDFFF);
        assert!(e.is_some() == scalar);
        if let Some((buf, len)) = e {
            let want = if cp < 0x80 { 1 } else if cp < 0x800 { 2 } else if cp < 0x10000 { 3 } else { 4 };
            assert!(len == want);
            assert!(wf_seq_len(&buf, len, 0) == len);
            assert!(decode_code_point(&buf[..len]) == Some((cp, len)));
            assert!(char::from_u32(cp).is_some());
        }
    }

    //@ kind=B props=C13 bound=every_4-byte_window,slice_lengths_0..=4 fn=decode_code_point,sequence_length : for every 4-byte window and every slice length 0..=4: decode is Some((cp,len)) iff a well-formed sequence (Table 3-7) of that length starts the slice, and cp re-encodes to those bytes
    #[kani::proof]
    pub fn c13_decode_window() {
        let w: [u8; 4] = kani::any();
        let n: usize = kani::any();
        kani::assume(n <= 4);
        let d = decode_code_point(&w[..n]);
        if n == 0 { assert!(d.is_none()); return; }
        let l = wf_seq_len(&w, n, 0);
        match d {
            None => assert!(l == 0),
            Some((cp, len)) => {
                assert!(l == len);
                let (buf, elen) = encode_code_point(cp).unwrap();
                assert!(elen == len);
                let mut i = 0;
                while i < 4 { if i < len { assert!(buf[i] == w[i]); } i += 1; }
            }
        }
    }

    fn kind_ok(b: &[u8], n: usize, e: &Utf8Error) -> bool {
        // the kind names the rule violated by the sequence starting at the end of the longest valid prefix
        let p = wf_prefix(b, n);
        let b0 = b[p];
        match e.kind {
            Utf8ErrorKind::InvalidLeadByte => (b0 >= 0x80 && b0 <= 0xBF) || b0 >= 0xF8,
            Utf8ErrorKind::TruncatedSequence => b0 >= 0xC0 && b0 <= 0xF7,
            Utf8ErrorKind::InvalidContinuationByte => b0 >= 0xC0 && b0 <= 0xF7,
            Utf8ErrorKind::OverlongEncoding => b0 == 0xC0 || b0 == 0xC1 || b0 == 0xE0 || b0 == 0xF0,
            Utf8ErrorKind::SurrogateCodepoint => b0 == 0xED,
            Utf8ErrorKind::OutOfRangeCodepoint => b0 >= 0xF4 && b0 <= 0xF7,
            _ => false,
        }
    }
    fn ref_line_col(b: &[u8], offset: usize) -> (usize, usize) {
        let mut line = 1; let mut start = 0; let mut i = 0;
        while i < offset { if b[i] == b'\n' { line += 1; start = i + 1; } i += 1; }
        (line, offset - start + 1)
    }

    fn scalar_case<const N: usize>(strict_offset: bool) {
        let b: [u8; N] = kani::any();
        let r = validate_utf8_scalar(&b);
        let p = wf_prefix(&b, N);
        match r {
            Ok(()) => assert!(p == N),
            Err(e) => {
                assert!(p < N);
                if strict_offset { assert!(e.offset == p); return; }
                assert!(kind_ok(&b, N, &e));
                assert!((e.line, e.column) == ref_line_col(&b, e.offset));
                if e.kind != Utf8ErrorKind::InvalidContinuationByte { assert!(e.offset == p); }
                else { assert!(e.offset > p && e.offset <= p + 3 && e.offset < N); }
            }
        }
    }
    //@ kind=B props=C13 tier=thorough bound=all_inputs_of_length_4 fn=validate_utf8_scalar : for ALL 2^32 byte strings of length 4: Ok iff well-formed (Unicode Table 3-7); on Err the kind names the rule violated at the end of the longest valid prefix, line/column are those of the reported offset, and the offset equals the longest-valid-prefix length except for the InvalidContinuationByte kind (known finding F6)
    #[kani::proof]
    #[kani::unwind(10)]
    pub fn c13_scalar_len4() { scalar_case::<4>(false); }
    //@ kind=B props=C13 tier=thorough bound=all_inputs_of_length_3 fn=validate_utf8_scalar : same for all strings of length 3 (truncations of 4-byte forms)
    #[kani::proof]
    #[kani::unwind(10)]
    pub fn c13_scalar_len3() { scalar_case::<3>(false); }
    //@ kind=B props=C13 tier=thorough bound=all_inputs_of_length_2 fn=validate_utf8_scalar : same for all strings of length 2
    #[kani::proof]
    #[kani::unwind(10)]
    pub fn c13_scalar_len2() { scalar_case::<2>(false); }

    //@ kind=B props=C13 known=F6 bound=the_input_E2_28_A1 fn=validate_utf8_scalar : property as worded, on the input [0xE2, 0x28, 0xA1]: on rejection the offset is the length of the longest valid prefix (0)
    #[kani::proof]
    #[kani::unwind(10)]
    pub fn c13_scalar_offset_is_valid_prefix_len() {
        let b: [u8; 3] = [0xE2, 0x28, 0xA1];
        let p = wf_prefix(&b, 3);
        match validate_utf8_scalar(&b) {
            Ok(()) => assert!(p == 3),
            Err(e) => { assert!(p < 3); assert!(e.offset == p); }
        }
    }

    //@ kind=P props=C13 fn=u64::count_ones : cross-check of the trusted Verus lemma axiom_h8_popcount (unit c13_linecol): for every word whose set bits all lie at the eight lane-top positions (bits 7, 15, .., 63), count_ones == the number of set lane tops; all 2^64 words, loop-free after unrolling 8 lanes
    #[kani::proof]
    #[kani::unwind(10)]
    pub fn c13_h8_popcount_is_lane_count() {
        let m: u64 = kani::any();
        kani::assume(m & !0x8080_8080_8080_8080u64 == 0);
        let mut n = 0u32;
        let mut k = 0u32;
        while k < 8 { if (m >> (8 * k + 7)) & 1 == 1 { n += 1; } k += 1; }
        assert!(m.count_ones() == n);
    }

    //@ kind=P props=C13 fn=u64::from_le_bytes : contract of the Verus stub le_word (unit c13_linecol): for any 8 bytes, lane k of u64::from_le_bytes(bytes[..8].try_into().unwrap()) is byte k
    #[kani::proof]
    #[kani::unwind(10)]
    pub fn c13_le_word_lanes() {
        let b: [u8; 11] = kani::any();
        let pos: usize = kani::any();
        kani::assume(pos <= 3);
        let w = u64::from_le_bytes(b[pos..pos + 8].try_into().unwrap());
        let mut k = 0usize;
        while k < 8 { assert!(((w >> (8 * k)) & 0xff) as u8 == b[pos + k]); k += 1; }
    }

    //@ kind=B props=C13 bound=every_19-byte_buffer,every_offset fn=line_and_column : SWAR newline counter == naive count for every 19-byte buffer and every offset <= 19 (two full 8-byte words plus a 3-byte scalar tail)
    #[kani::proof]
    #[kani::unwind(22)]
    pub fn c13_line_and_column() {
        let b: [u8; 19] = kani::any();
        let off: usize = kani::any();
        kani::assume(off <= 19);
        assert!(line_and_column(&b, off) == ref_line_col(&b, off));
    }

    //@ kind=B props=C13 bound=buffer_len<=19,every_pos<=len fn=skip_ascii : contract of the Verus stub (unit c13_scalar): the result r satisfies pos <= r <= len and every byte in [pos, r) is ASCII (two SWAR words plus a scalar tail)
    #[kani::proof]
    #[kani::unwind(21)]
    pub fn c13_skip_ascii_contract() {
        let b: [u8; 19] = kani::any();
        let n: usize = kani::any(); kani::assume(n <= 19);
        let pos: usize = kani::any(); kani::assume(pos <= n);
        let r = skip_ascii(&b[..n], pos);
        assert!(pos <= r && r <= n);
        let i: usize = kani::any(); kani::assume(pos <= i && i < r);
        assert!(b[i] < 0x80);
    }
}
