// ---- appended by /verif (cfg(kani) only): strict JSON validator on concrete documents (C08)
#[cfg(kani)]
#[allow(unused)]
pub(crate) mod __verif_kani {
    use super::*;

    //@ kind=P props=C08 fn=validate : the real build agrees with the five verdicts the Verus unit derives from the grammar spec by `by (compute)` (lemma_spec_examples): [1, "a"] and {"":-0}\n accepted; [1,] / 01 / an overlong NUL inside a string rejected -- ties the extracted text to the compiled code
    #[kani::proof]
    #[kani::unwind(14)]
    pub fn c08_validate_agrees_with_spec_examples() {
        assert!(validate(&[0x5B, 0x31, 0x2C, 0x20, 0x22, 0x61, 0x22, 0x5D]).is_ok());
        assert!(validate(&[0x5B, 0x31, 0x2C, 0x5D]).is_err());
        assert!(validate(&[0x7B, 0x22, 0x22, 0x3A, 0x2D, 0x30, 0x7D, 0x0A]).is_ok());
        assert!(validate(&[0x30, 0x31]).is_err());
        assert!(validate(&[0x22, 0xC0, 0x80, 0x22]).is_err());
    }

    //@ kind=B props=C08 known=F8 bound=the_input_"\uDC00" fn=validate : second sentence of the property on the input "\uDC00": the reported offset is not beyond the longest viable prefix, which is `"\uD` (4 bytes; unit c08_validate proves lemma_low_surrogate_prefix_dead: no JSON text starts with `"\uDC`)
    #[kani::proof]
    #[kani::unwind(14)]
    pub fn c08_error_offset_lone_low_surrogate() {
        let doc: [u8; 8] = [0x22, 0x5C, 0x75, 0x44, 0x43, 0x30, 0x30, 0x22];
        match validate(&doc) {
            Ok(()) => assert!(false),
            Err(e) => assert!(e.position.offset <= 4),
        }
    }

    //@ kind=B props=C08 bound=the_input_"\uD800x" fn=validate : same sentence where it holds: a high surrogate not followed by a backslash is reported at the offending byte (offset 7), and `"\uD800` is still viable
    #[kani::proof]
    #[kani::unwind(14)]
    pub fn c08_error_offset_high_surrogate_then_other() {
        let doc: [u8; 9] = [0x22, 0x5C, 0x75, 0x44, 0x38, 0x30, 0x30, 0x78, 0x22];
        match validate(&doc) {
            Ok(()) => assert!(false),
            Err(e) => assert!(e.position.offset <= 7 && e.position.line == 1 && e.position.column == 8),
        }
    }
}
