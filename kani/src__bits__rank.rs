// ---- appended by /verif (cfg(kani) only): Poppy rank directory (C01)
#[cfg(kani)]
#[allow(unused, unsafe_code)]
mod __verif_kani {
    use super::*;

    //@ kind=B props=C01 bound=5_words(one_partial_block) fn=RankDirectory::{build,rank_at_word} : 5 symbolic words (one partial block): rank_at_word(j) == sum of count_ones of words 0..j for all j < 5
    #[kani::proof]
    #[kani::unwind(10)]
    pub fn c01_rank_dir_partial_block() {
        let w: [u64; 5] = kani::any();
        let dir = RankDirectory::build(&w);
        let j: usize = kani::any();
        kani::assume(j < 5);
        let mut t = 0usize;
        let mut i = 0;
        while i < 5 { if i < j { t += w[i].count_ones() as usize; } i += 1; }
        assert!(dir.rank_at_word(j) == t);
    }

    //@ kind=B props=C01 bound=19_words(3_blocks) fn=RankDirectory::{build,rank_at_word} : 19 symbolic words (two full blocks and a partial one): rank_at_word(j) == sum of count_ones of words 0..j for all j < 19
    #[kani::proof]
    #[kani::unwind(20)]
    pub fn c01_rank_dir_blocks() {
        let w: [u64; 19] = kani::any();
        let dir = RankDirectory::build(&w);
        let j: usize = kani::any();
        kani::assume(j < 19);
        let mut t = 0usize;
        let mut i = 0;
        while i < 19 { if i < j { t += w[i].count_ones() as usize; } i += 1; }
        assert!(dir.rank_at_word(j) == t);
    }
}
