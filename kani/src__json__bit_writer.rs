// ---- appended by /verif (cfg(kani) only): BitWriter against the abstract bit sequence (C05, C20)
#[cfg(kani)]
#[allow(unused, unsafe_code)]
pub(crate) mod __verif_kani {
    use super::*;

    /// arbitrary writer state satisfying the representation invariant: bit_position < 64 and current_word has no bits
    /// at or above bit_position; one already-flushed word
    fn any_writer() -> (BitWriter, u64, u64, u32) {
        let w0: u64 = kani::any();
        let cur: u64 = kani::any();
        let pos: u32 = kani::any();
        kani::assume(pos < 64);
        kani::assume(pos == 0 && cur == 0 || pos > 0 && cur >> pos == 0);
        let mut words = Vec::with_capacity(4);
        words.push(w0);
        (BitWriter { words, current_word: cur, bit_position: pos }, w0, cur, pos)
    }
    fn bit_of(words: &[u64], i: usize) -> bool { (words[i / 64] >> (i % 64)) & 1 == 1 }

    //@ kind=P props=C05,C20 fn=BitWriter::{write_bit,write_0,write_1,finish,len} : from ANY writer state (invariant: pos<64, no stray bits): appending one bit leaves all earlier bits unchanged, makes bit number len equal to the argument, and len grows by exactly 1; finish yields exactly ceil(len/64) words with zero padding
    #[kani::proof]
    #[kani::unwind(4)]
    pub fn c05_bitwriter_write_bit() {
        let (mut w, w0, cur, pos) = any_writer();
        let b: bool = kani::any();
        let n0 = w.len();
        assert!(n0 == 64 + pos as usize);
        let which: u8 = kani::any();
        if which == 0 { w.write_bit(b) } else if b { w.write_1() } else { w.write_0() }
        assert!(w.len() == n0 + 1);
        let out = w.finish();
        assert!(out.len() == (n0 + 1 + 63) / 64);
        assert!(out[0] == w0);
        let expect = cur | ((b as u64) << pos);
        assert!(out[1] == expect);
    }

    //@ kind=P props=C05,C20 fn=BitWriter::write_bits : from ANY writer state, write_bits(bits,count<=64) appends exactly the low `count` bits of `bits` in order (earlier bits unchanged, later bits zero), len grows by count, also when the write straddles a word boundary
    #[kani::proof]
    #[kani::unwind(4)]
    pub fn c05_bitwriter_write_bits() {
        let (mut w, w0, cur, pos) = any_writer();
        let bits: u64 = kani::any();
        let count: usize = kani::any();
        kani::assume(count <= 64);
        let n0 = w.len();
        w.write_bits(bits, count);
        assert!(w.len() == n0 + count);
        let out = w.finish();
        assert!(out.len() == (n0 + count + 63) / 64);
        assert!(out[0] == w0);
        // expected 128-bit window after the flushed word
        let masked: u128 = if count == 64 { bits as u128 } else { (bits & ((1u64 << count) - 1)) as u128 };
        let window: u128 = (cur as u128) | (masked << pos);
        if out.len() > 1 { assert!(out[1] == window as u64); } else { assert!(window as u64 == 0); }
        if out.len() > 2 { assert!(out[2] == (window >> 64) as u64); } else { assert!((window >> 64) as u64 == 0); }
    }
}
