// ---- appended by /verif (cfg(kani) only): AVX2 JSON engine: lane classification and chunk step vs the reference machine (C05)
#[cfg(kani)]
#[allow(unused, unsafe_code)]
mod __verif_kani {
    use super::*;
    use crate::json::standard::__verif_kani::{any_state, ref_step};

    const W: usize = 32;

    unsafe fn classify_of(bytes: &[u8; W]) -> CharClass {
        classify_chars(_mm256_loadu_si256(bytes.as_ptr().cast()))
    }

    //@ kind=P props=C05 fn=json::simd::avx2::classify_chars stubs=_mm256_min_epu8,_mm256_sub_epi8 : for ALL 32-byte chunks and every lane i: each of the six masks has bit i set iff byte i is in the class (quote, backslash, '{'/'[', '}'/']', ','/':', value char [A-Za-z0-9.+-]); no bits above lane 32
    #[kani::proof]
    #[kani::unwind(34)]
    #[kani::stub(core::arch::x86_64::_mm256_min_epu8, crate::__verif_models::model_mm256_min_epu8)]
    #[kani::stub(core::arch::x86_64::_mm256_sub_epi8, crate::__verif_models::model_mm256_sub_epi8)]
    pub fn c05_avx2_classify_lanes() {
        let bytes: [u8; W] = kani::any();
        let class = unsafe { classify_of(&bytes) };
        let i: usize = kani::any();
        kani::assume(i < W);
        let c = bytes[i];
        let bit = |m: u32| (m >> i) & 1 == 1;
        assert!(bit(class.quotes as u32) == (c == b'"'));
        assert!(bit(class.backslashes as u32) == (c == b'\\'));
        assert!(bit(class.opens as u32) == (c == b'{' || c == b'['));
        assert!(bit(class.closes as u32) == (c == b'}' || c == b']'));
        assert!(bit(class.delims as u32) == (c == b',' || c == b':'));
        let valc = (c >= b'a' && c <= b'z') || (c >= b'A' && c <= b'Z') || (c >= b'0' && c <= b'9') || c == b'.' || c == b'-' || c == b'+';
        assert!(bit(class.value_chars as u32) == valc);
        if W < 32 {
            assert!((class.quotes as u32) >> W == 0 && (class.value_chars as u32) >> W == 0 && (class.opens as u32) >> W == 0);
        }
    }

    /// a CharClass whose lanes 0..n are what classify_chars is PROVED to return for these bytes (c05_avx2_classify_lanes);
    /// all other lanes arbitrary
    fn class_by_contract(bytes: &[u8], n: usize) -> CharClass {
        let mut q: u32 = kani::any(); let mut bs: u32 = kani::any(); let mut o: u32 = kani::any();
        let mut cl: u32 = kani::any(); let mut d: u32 = kani::any(); let mut v: u32 = kani::any();
        let mut i = 0;
        while i < 3 {
            if i < n {
                let c = bytes[i];
                let bit = 1u32 << i;
                let valc = (c >= b'a' && c <= b'z') || (c >= b'A' && c <= b'Z') || (c >= b'0' && c <= b'9') || c == b'.' || c == b'-' || c == b'+';
                q = if c == b'"' { q | bit } else { q & !bit };
                bs = if c == b'\\' { bs | bit } else { bs & !bit };
                o = if c == b'{' || c == b'[' { o | bit } else { o & !bit };
                cl = if c == b'}' || c == b']' { cl | bit } else { cl & !bit };
                d = if c == b',' || c == b':' { d | bit } else { d & !bit };
                v = if valc { v | bit } else { v & !bit };
            }
            i += 1;
        }
        CharClass { quotes: q as _, backslashes: bs as _, opens: o as _, closes: cl as _, delims: d as _, value_chars: v as _ }
    }

    //@ kind=P props=C05 fn=json::simd::avx2::process_chunk_standard : one step, all bytes, all 4 states, classification masks as guaranteed by the classify_chars contract (other lanes arbitrary): new state and the bits appended to IB and BP equal the reference machine's (IB exactly one bit; BP open then close)
    #[kani::proof]
    #[kani::unwind(5)]
    pub fn c05_avx2_standard_step_is_reference() {
        let c: u8 = kani::any();
        let one = [c];
        let class = class_by_contract(&one, 1);
        let s = any_state();
        let mut ib = BitWriter::with_capacity(1);
        let mut bp = BitWriter::with_capacity(1);
        let ns = process_chunk_standard(class, s, &mut ib, &mut bp, &one);
        let (rs, rib, rop, rcl) = ref_step(c, s);
        assert!(ns == rs);
        assert!(ib.len() == 1);
        assert!(bp.len() == rop as usize + rcl as usize);
        let ibw = ib.finish();
        let bpw = bp.finish();
        assert!((ibw[0] & 1 == 1) == rib);
        if rop && rcl { assert!(bpw[0] == 0b01); }
        else if rop { assert!(bpw[0] == 1); }
        else if rcl { assert!(bpw[0] == 0); }
    }

    //@ kind=B props=C05 tier=thorough bound=3_consecutive_lanes fn=json::simd::avx2::process_chunk_standard : the loop over lanes: for 3 bytes at lanes 0..3 (classification by contract) and any start state, the final state and the IB/BP words equal three reference steps (checks the `1 << i` lane indexing and the order of emission)
    #[kani::proof]
    #[kani::unwind(5)]
    pub fn c05_avx2_standard_three_lanes() {
        let bytes: [u8; 3] = kani::any();
        let class = class_by_contract(&bytes, 3);
        let s = any_state();
        let mut ib = BitWriter::with_capacity(1);
        let mut bp = BitWriter::with_capacity(1);
        let ns = process_chunk_standard(class, s, &mut ib, &mut bp, &bytes);
        let mut rs = s;
        let mut eib = 0u64; let mut ebp = 0u64; let mut nbp = 0u32;
        let mut k = 0;
        while k < 3 {
            let (t, rib, rop, rcl) = ref_step(bytes[k], rs);
            rs = t;
            if rib { eib |= 1 << k; }
            if rop { ebp |= 1 << nbp; nbp += 1; }
            if rcl { nbp += 1; }
            k += 1;
        }
        assert!(ns == rs);
        assert!(ib.len() == 3 && bp.len() == nbp as usize);
        let ibw = ib.finish();
        assert!(ibw[0] == eib);
        let bpw = bp.finish();
        if nbp > 0 { assert!(bpw[0] == ebp); }
    }

    fn simple_step_case<const N: usize>(s: SimpleState, mut buf: [u8; N]) {
        // buf = state-setting prefix (concrete) followed by one slot for the symbolic byte
        let plen = N - 1;
        let r0 = crate::json::simple::build_semi_index(&buf[..N - 1]);
        assert!(r0.state == s && r0.bp.is_empty());
        let c: u8 = kani::any();
        buf[plen] = c;
        let one = [c];
        let class = class_by_contract(&one, 1);
        let r1 = crate::json::simple::build_semi_index(&buf);
        let mut ib = BitWriter::with_capacity(1);
        let mut bp = BitWriter::with_capacity(1);
        let ns = process_chunk_simple(class, s, &mut ib, &mut bp, &one);
        assert!(ns == r1.state);
        assert!(ib.len() == 1);
        let ibw = ib.finish();
        assert!((ibw[0] & 1) == (r1.ib[0] >> plen) & 1);
        let nb = bp.len();
        let bpw = bp.finish();
        if r1.bp.is_empty() { assert!(nb == 0); } else { assert!(nb == 2 && bpw[0] == r1.bp[0]); }
    }

    //@ kind=P props=C05,C32 fn=json::simd::avx2::process_chunk_simple : one step of the simple-cursor encoding for all bytes in each of the 3 states (classification by contract): new state and appended IB/BP bits equal what the scalar reference builder json::simple::build_semi_index emits for that byte after a concrete state-setting prefix ("", `"`, `"\\`)
    #[kani::proof]
    #[kani::unwind(5)]
    pub fn c05_avx2_simple_step_is_reference() {
        let k: u8 = kani::any();
        if k == 0 { simple_step_case::<1>(SimpleState::InJson, [0]); }
        else if k == 1 { simple_step_case::<2>(SimpleState::InString, [b'"', 0]); }
        else { simple_step_case::<3>(SimpleState::InEscape, [b'"', b'\\', 0]); }
    }
}
