// ---- appended by /verif (cfg(kani) only): SimpleJsonIndex rank on symbolic interest bits (C32)
#[cfg(kani)]
#[allow(unused)]
pub(crate) mod __verif_kani {
    use super::*;

    /// bit-at-a-time definition: number of set interest bits at positions < pos
    fn ref_rank(words: &[u64], pos: usize) -> usize {
        let mut n = 0usize;
        let mut w = 0usize;
        while w < words.len() {
            let x = words[w];
            let lim = if pos >= (w + 1) * 64 { 64 } else if pos > w * 64 { pos - w * 64 } else { 0 };
            let m = if lim == 64 { u64::MAX } else { (1u64 << lim) - 1 };
            n += (x & m).count_ones() as usize;
            w += 1;
        }
        n
    }

    //@ kind=B props=C32 bound=ib_words=9(576_bits),every_pos fn=SimpleJsonIndex::ib_rank1,SimpleJsonIndex::structural_index : every 9-word interest bitmap (one word past an 8-word block) and every position <= 576: ib_rank1 == the number of set bits below the position; structural_index(pos) is Some(that rank) exactly on set bits. Replayable companion of the unbounded Verus proof (catches rewrites of the loop structure that the extraction declines)
    #[kani::proof]
    #[kani::unwind(11)]
    pub fn c32_ib_rank_9_words() {
        let ib: [u64; 9] = kani::any();
        let pos: usize = kani::any();
        kani::assume(pos <= 576);
        let ix: SimpleJsonIndex<Vec<u64>> = SimpleJsonIndex::from_parts(ib.to_vec(), 576, Vec::new(), 0);
        let r = ref_rank(&ib, pos);
        assert!(ix.ib_rank1(pos) == r);
        if pos < 576 {
            let set = (ib[pos / 64] >> (pos % 64)) & 1 == 1;
            match ix.structural_index(pos) {
                Some(k) => assert!(set && k == r),
                None => assert!(!set),
            }
        }
    }
}
