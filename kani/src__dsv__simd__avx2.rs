// ---- appended by /verif (cfg(kani) only): 64-byte chunk step of the avx2 DSV engine vs the scalar state machine (C20)
#[cfg(kani)]
#[allow(unused, unsafe_code)]
mod __verif_kani {
    use super::*;

    //@ kind=P props=C20 stubs=_mm256_min_epu8,_mm256_max_epu8,_mm256_subs_epu8(unused_on_the_pinned_tree) fn=dsv::simd::avx2::process_chunk_64 : for ALL 64-byte chunks, all pairwise-distinct (delimiter, quote, newline) bytes and both carries: (markers, newlines, carry') == 64 steps of the scalar parser::build_index loop body started with in_quote = carry
    #[kani::proof]
    #[kani::unwind(66)]
    #[kani::stub(core::arch::x86_64::_mm256_min_epu8, crate::__verif_models::model_mm256_min_epu8)]
    #[kani::stub(core::arch::x86_64::_mm256_max_epu8, crate::__verif_models::model_mm256_max_epu8)]
    #[kani::stub(core::arch::x86_64::_mm256_subs_epu8, crate::__verif_models::model_mm256_subs_epu8)]
    pub fn c20_avx2_chunk64_is_scalar() {
        let bytes: [u8; 64] = kani::any();
        let d: u8 = kani::any();
        let q: u8 = kani::any();
        let n: u8 = kani::any();
        kani::assume(d != q && q != n && d != n);
        let carry: u64 = kani::any();
        kani::assume(carry <= 1);
        let (m, nl, c2) = unsafe { process_chunk_64(bytes.as_ptr(), d as i8, q as i8, n as i8, carry) };
        let mut in_quote = carry == 1;
        let mut em = 0u64;
        let mut en = 0u64;
        let mut i = 0;
        while i < 64 {
            let b = bytes[i];
            if b == q { in_quote = !in_quote; }
            if !in_quote {
                if b == d || b == n { em |= 1u64 << i; }
                if b == n { en |= 1u64 << i; }
            }
            i += 1;
        }
        assert!(m == em);
        assert!(nl == en);
        assert!(c2 == in_quote as u64);
    }
}
