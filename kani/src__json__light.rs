// ---- appended by /verif (cfg(kani) only): JsonIndex rebuilt from parts (C31 third sentence, C07)
#[cfg(kani)]
#[allow(unused)]
pub(crate) mod __verif_kani {
    use super::*;

    fn ref_rank(words: &[u64], pos: usize) -> usize {
        let mut n = 0usize;
        let mut w = 0usize;
        while w < words.len() {
            let lim = if pos >= (w + 1) * 64 { 64 } else if pos > w * 64 { pos - w * 64 } else { 0 };
            let m = if lim == 64 { u64::MAX } else { (1u64 << lim) - 1 };
            n += (words[w] & m).count_ones() as usize;
            w += 1;
        }
        n
    }

    //@ kind=B props=C31,C07 stubs=select_in_word(contract) bound=ib_words=2,ib_len_in_{100,128},every_pos,every_k fn=JsonIndex::from_parts,JsonIndex::ib_rank1,JsonIndex::ib_select1 : an index rebuilt with from_parts from any two interest-bit words (bits past ib_len clear), for a length that is and one that is not a multiple of 64: ib_rank1(pos) == the number of set bits below pos for every pos, and ib_select1(k) is Some exactly for k below the total, at a set bit of that rank -- i.e. the rebuilt index answers from the words alone, as the original does. Replayable companion of the Verus contract of from_parts
    #[kani::proof]
    #[kani::unwind(66)]
    #[kani::stub(crate::util::broadword::select_in_word, crate::__verif_models::ref_select_in_word)]
    pub fn c31_from_parts_ib_queries_2_words() {
        let ib: [u64; 2] = kani::any();
        let full: bool = kani::any();
        let ib_len: usize = if full { 128 } else { 100 };
        if !full { kani::assume(ib[1] >> 36 == 0); }
        let ix: JsonIndex<Vec<u64>> = JsonIndex::from_parts(ib.to_vec(), ib_len, Vec::new(), 0);
        let pos: usize = kani::any();
        kani::assume(pos <= ib_len);
        assert!(ix.ib_rank1(pos) == ref_rank(&ib, pos));
        let total = ref_rank(&ib, ib_len);
        let k: usize = kani::any();
        match ix.ib_select1(k) {
            Some(p) => { assert!(k < total && p < ib_len); assert!((ib[p / 64] >> (p % 64)) & 1 == 1); assert!(ref_rank(&ib, p) == k); }
            None => assert!(k >= total),
        }
    }
}
