// ---- appended by /verif (cfg(kani) only): quote-mask primitives (C20)
#[cfg(kani)]
#[allow(unused, unsafe_code)]
mod __verif_kani {
    use super::*;

    /// definition: bit i of the result is 1 iff position i is outside quotes, where the state toggles AT each quote
    /// (post-toggle convention), starting inside iff carry&1; second result = state after the 64 positions
    pub fn ref_outside(carry: u64, quote_mask: u64) -> (u64, u64) {
        let mut inq = carry & 1 == 1;
        let mut out = 0u64;
        let mut i = 0;
        while i < 64 {
            if (quote_mask >> i) & 1 == 1 { inq = !inq; }
            if !inq { out |= 1u64 << i; }
            i += 1;
        }
        (out, inq as u64)
    }

    //@ kind=P props=C20 fn=prefix_xor,toggle64_from_prefix_xor,next_carry : for all quote bitmaps and carries: outside-quotes mask and next carry equal the 64-step toggle definition
    #[kani::proof]
    #[kani::unwind(65)]
    pub fn c20_toggle64_prefix_xor() {
        let q: u64 = kani::any();
        let c: u64 = kani::any();
        let (o, nc) = toggle64_from_prefix_xor(c, q, prefix_xor(q));
        let (ro, rc) = ref_outside(c, q);
        assert!(o == ro && nc == rc);
    }

    //@ kind=P props=C20 fn=toggle64_bmi2,toggle64_from_deposit stubs=_pdep_u64 : for all quote bitmaps and carries: the PDEP+adder mask agrees with the toggle definition at every NON-quote position (quote positions can never be markers) and the next carry is exact, including a quote at bit 63
    #[kani::proof]
    #[kani::unwind(65)]
    #[kani::stub(core::arch::x86_64::_pdep_u64, crate::__verif_models::model_pdep_u64)]
    pub fn c20_toggle64_bmi2() {
        let q: u64 = kani::any();
        let c: u64 = kani::any();
        let (o, nc) = unsafe { crate::util::simd::x86::toggle64_bmi2(c, q) };
        let (ro, rc) = ref_outside(c, q);
        assert!((o & !q) == (ro & !q));
        assert!(nc == rc);
    }
}
