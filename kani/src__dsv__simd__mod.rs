// ---- appended by /verif (cfg(kani) only): BOUNDED whole-engine comparison (outer chunk loop, padded tail, BitWriter,
// dispatcher) at fixed lengths; the per-chunk step is proved without bound in the engine files (C20)
#[cfg(kani)]
#[allow(unused, unsafe_code)]
mod __verif_kani {
    use super::*;
    use crate::dsv::DsvConfig;

    fn any_cfg() -> DsvConfig {
        let d: u8 = kani::any();
        let q: u8 = kani::any();
        let n: u8 = kani::any();
        kani::assume(d != q && q != n && d != n);
        let mut c = DsvConfig::default();
        c.delimiter = d;
        c.quote_char = q;
        c.newline = n;
        c
    }
    fn any_bool() -> bool { kani::any() }

    fn same(a: &crate::dsv::DsvIndex, b: &crate::dsv::DsvIndex) -> bool {
        let (x, y) = (a.as_lightweight(), b.as_lightweight());
        x.markers == y.markers && x.newlines == y.newlines && x.text_len == y.text_len
            && x.markers_rank == y.markers_rank && x.newlines_rank == y.newlines_rank
    }

    macro_rules! engine_case {
        ($name:ident, $len:expr, $call:expr) => {
            #[kani::proof]
            #[kani::unwind(72)]
            #[kani::stub(core::arch::x86_64::_pdep_u64, crate::__verif_models::model_pdep_u64)]
            #[kani::stub(detect_bmi2, any_bool)]
            #[kani::stub(detect_avx2, any_bool)]
            pub fn $name() {
                let text: [u8; $len] = kani::any();
                let cfg = any_cfg();
                let reference = crate::dsv::parser::build_index(&text, &cfg);
                let f: fn(&[u8], &DsvConfig) -> crate::dsv::DsvIndex = $call;
                let got = f(&text, &cfg);
                assert!(same(&got, &reference));
            }
        };
    }

    //@ kind=B props=C20 tier=thorough bound=text_len=70(one_chunk+6_byte_tail) fn=dsv::simd::avx2::build_index_simd : index words and rank arrays equal the scalar builder's for all 70-byte texts and all distinct configs
    engine_case!(c20_avx2_engine_len70, 70, avx2::build_index_simd);
    //@ kind=B props=C20 tier=thorough bound=text_len=70 fn=dsv::simd::sse2::build_index_simd : index words and rank arrays equal the scalar builder's for all 70-byte texts and all distinct configs
    engine_case!(c20_sse2_engine_len70, 70, sse2::build_index_simd);
    //@ kind=B props=C20 tier=thorough bound=text_len=70 fn=dsv::simd::bmi2::build_index_simd : index words and rank arrays equal the scalar builder's for all 70-byte texts and all distinct configs
    engine_case!(c20_bmi2_engine_len70, 70, bmi2::build_index_simd);
    //@ kind=B props=C20 tier=thorough bound=text_len=70 fn=dsv::simd::build_index_simd : runtime dispatcher with both feature flags nondeterministic: same index as the scalar builder for all 70-byte texts
    engine_case!(c20_dispatch_len70, 70, build_index_simd);
    //@ kind=B props=C20 bound=text_len=5 fn=dsv::simd::build_index_simd : tail-only input (shorter than one chunk), dispatcher with nondeterministic flags
    engine_case!(c20_dispatch_len5, 5, build_index_simd);
}
