// ---- appended by /verif (cfg(kani) only): BOUNDED whole-engine comparisons on inputs whose symbolic bytes straddle
// chunk boundaries (outer chunk loop, state carried between chunks, padded tail) (C05)
#[cfg(kani)]
#[allow(unused, unsafe_code)]
mod __verif_kani {
    use super::*;

    /// text of length LEN: `filler` everywhere, an opening quote at `quote_at` (so what follows is inside a string),
    /// and a window of WIN symbolic bytes at AT
    fn windowed<const LEN: usize>(filler: u8, quote_at: Option<usize>, at: usize, win: usize) -> [u8; LEN] {
        let mut b = [filler; LEN];
        if let Some(q) = quote_at { b[q] = b'"'; }
        let mut i = 0;
        while i < 6 { if i < win && at + i < LEN { b[at + i] = kani::any(); } i += 1; }
        b
    }
    fn same_std(a: &crate::json::standard::SemiIndex, b: &crate::json::standard::SemiIndex) -> bool {
        a.state == b.state && a.ib == b.ib && a.bp == b.bp
    }
    fn same_simple(a: &crate::json::simple::SemiIndex, b: &crate::json::simple::SemiIndex) -> bool {
        a.state == b.state && a.ib == b.ib && a.bp == b.bp
    }

    macro_rules! engine_window {
        ($name:ident, $len:expr, $filler:expr, $quote:expr, $at:expr, $win:expr) => {
            #[kani::proof]
            #[kani::unwind(140)]
            #[kani::stub(core::arch::x86_64::_mm256_min_epu8, crate::__verif_models::model_mm256_min_epu8)]
            #[kani::stub(core::arch::x86_64::_mm256_sub_epi8, crate::__verif_models::model_mm256_sub_epi8)]
            #[kani::stub(core::arch::x86_64::_mm_min_epu8, crate::__verif_models::model_mm_min_epu8)]
            #[kani::stub(core::arch::x86_64::_mm_sub_epi8, crate::__verif_models::model_mm_sub_epi8)]
            pub fn $name() {
                let t: [u8; $len] = windowed::<$len>($filler, $quote, $at, $win);
                let reference = crate::json::standard::build_semi_index_scalar(&t);
                assert!(same_std(&avx2::build_semi_index_standard(&t), &reference));
                assert!(same_std(&x86::build_semi_index_standard(&t), &reference));
                assert!(same_std(&crate::json::standard::build_semi_index(&t), &reference));
                let sref = crate::json::simple::build_semi_index(&t);
                assert!(same_simple(&avx2::build_semi_index_simple(&t), &sref));
                assert!(same_simple(&x86::build_semi_index_simple(&t), &sref));
            }
        };
    }
    //@ kind=B props=C05 bound=len=70,inside_a_string,4_symbolic_bytes_at_30..34 fn=json::simd::{avx2,x86}::build_semi_index_{standard,simple},json::standard::build_semi_index : AVX2, SSE2 and PFSM builders == scalar reference (IB, BP, final state; both encodings) for every 4-byte pattern straddling byte 32 inside a string (escape/quote state carried across the AVX2 chunk boundary and the second SSE2 boundary)
    engine_window!(c05_engines_string_window_32, 70, b'a', Some(1), 30, 4);
    //@ kind=B props=C05 bound=len=70,inside_a_string,4_symbolic_bytes_at_14..18 fn=json::simd::{avx2,x86}::build_semi_index_{standard,simple} : same, window straddling byte 16 (first SSE2 chunk boundary)
    engine_window!(c05_engines_string_window_16, 70, b'a', Some(1), 14, 4);
    //@ kind=B props=C05 bound=len=70,inside_a_string,4_symbolic_bytes_at_62..66 fn=json::simd::{avx2,x86}::build_semi_index_{standard,simple} : same, window straddling byte 64 (second AVX2 boundary, start of the padded tail)
    engine_window!(c05_engines_string_window_64, 70, b'a', Some(1), 62, 4);
    //@ kind=B props=C05 bound=len=70,outside_strings,4_symbolic_bytes_at_30..34 fn=json::simd::{avx2,x86}::build_semi_index_{standard,simple} : same, filler is whitespace and no string is open (value/structural state carried across the boundary)
    engine_window!(c05_engines_json_window_32, 70, b' ', None, 30, 4);
}
