// ---- appended by /verif (cfg(kani) only): AdvancePositions under ANY lookup history (C17): inductive in history, bounded in data
#[cfg(kani)]
#[allow(unused, unsafe_code)]
mod __verif_kani {
    use super::*;

    const NP: usize = 5;      // recorded positions
    const TL: usize = 130;    // text length (3 IB words; 128 is a multiple of 64 and is a legal position)

    fn contract_select_in_word(x: u64, k: u32) -> u32 {
        let mut c = 0u32; let mut i = 0u32;
        while i < 64 { if (x >> i) & 1 == 1 { if c == k { return i; } c += 1; } i += 1; }
        64
    }
    fn contract_block_popcount(block: &[u64]) -> usize {
        let mut t = 0usize; let mut i = 0;
        while i < block.len() { t += block[i].count_ones() as usize; i += 1; }
        t
    }

    fn ref_adv_rank(ap: &AdvancePositions, n: usize) -> usize {
        // number of advance bits among opens 0..n (one word of advance bits here)
        if n == 0 { 0 } else if n >= 64 { ap.advance_words[0].count_ones() as usize } else { (ap.advance_words[0] & ((1u64 << n) - 1)).count_ones() as usize }
    }
    fn ref_ones_before(ap: &AdvancePositions, w: usize) -> usize {
        let mut t = 0; let mut i = 0;
        while i < 3 { if i < w { t += ap.ib_words[i].count_ones() as usize; } i += 1; }
        t
    }
    fn ref_ib_select(ap: &AdvancePositions, k: usize) -> Option<usize> {
        let mut seen = 0usize; let mut w = 0;
        while w < 3 {
            let c = ap.ib_words[w].count_ones() as usize;
            if k < seen + c { return Some(w * 64 + contract_select_in_word(ap.ib_words[w], (k - seen) as u32) as usize); }
            seen += c; w += 1;
        }
        None
    }
    /// cursor invariant (what every earlier get() leaves behind)
    fn inv(ap: &AdvancePositions, c: &SequentialCursor) -> bool {
        c.next_open_idx <= ap.num_opens
            && c.adv_cumulative == ref_adv_rank(ap, c.next_open_idx)
            && c.ib_word_idx <= 3
            && c.ib_ones_before == ref_ones_before(ap, c.ib_word_idx)
            && (c.adv_cumulative == 0 || c.ib_ones_before <= c.adv_cumulative - 1 || c.ib_word_idx == 0)
            && (c.last_ib_arg == usize::MAX || (c.last_ib_arg < ap.ib_ones && ref_ib_select(ap, c.last_ib_arg) == Some(c.last_ib_result)
                                                && c.last_ib_arg + 1 <= c.adv_cumulative.max(1) + 0 ))
    }
    fn any_cursor(ap: &AdvancePositions) -> SequentialCursor {
        let c = SequentialCursor { next_open_idx: kani::any(), adv_cumulative: kani::any(), ib_word_idx: kani::any(),
                                   ib_ones_before: kani::any(), last_ib_arg: kani::any(), last_ib_result: kani::any() };
        kani::assume(inv(ap, &c));
        c
    }

    //@ kind=B props=C17 tier=thorough bound=5_positions,text_len=130 fn=AdvancePositions::{build_unchecked,get,get_sequential,get_random,advance_cursor_to,advance_rank1,ib_select1_with_state} : for every non-decreasing sequence of 5 positions <= text_len and ANY cursor state satisfying the invariant (whatever earlier lookups left behind): get(i) returns exactly the recorded position i (None past the end) and leaves a cursor satisfying the invariant; the default cursor satisfies it
    #[kani::proof]
    #[kani::unwind(70)]
    #[kani::stub(crate::util::broadword::select_in_word, contract_select_in_word)]
    #[kani::stub(crate::bits::scan::block_popcount, contract_block_popcount)]
    pub fn c17_advance_positions_any_history() {
        let pos: [u32; NP] = kani::any();
        let mut i = 0;
        while i < NP { kani::assume(pos[i] as usize <= TL - 1); if i > 0 { kani::assume(pos[i - 1] <= pos[i]); } i += 1; }
        let ap = AdvancePositions::build_unchecked(&pos, TL);
        assert!(inv(&ap, &SequentialCursor::default()));
        let c = any_cursor(&ap);
        ap.cursor.set(c);
        let q: usize = kani::any();
        let r = ap.get(q);
        if q < NP { assert!(r == Some(pos[q])); } else { assert!(r.is_none()); }
        assert!(inv(&ap, &ap.cursor.get()));
    }
}
