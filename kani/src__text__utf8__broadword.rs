// ---- appended by /verif (cfg(kani) only): broadword acceptor on word-boundary windows (C13)
#[cfg(kani)]
#[allow(unused, unsafe_code)]
mod __verif_kani {
    use super::*;
    use crate::text::utf8::__verif_kani::wf_prefix;

    fn windowed<const LEN: usize>(at: usize, win: usize) -> [u8; LEN] {
        let mut b = [b'a'; LEN];
        let mut i = 0;
        while i < 8 { if i < win && at + i < LEN { b[at + i] = kani::any(); } i += 1; }
        b
    }

    macro_rules! bw_case {
        ($name:ident, $len:expr, $at:expr, $win:expr) => {
            #[kani::proof]
            #[kani::unwind(20)]
            pub fn $name() {
                let b: [u8; $len] = windowed::<$len>($at, $win);
                let accepted = accepts(&b);
                let wf = wf_prefix(&b, $len) == $len;
                assert!(accepted == wf);
            }
        };
    }

    //@ kind=B props=C13 bound=len=16,5_symbolic_bytes_at_5..10_rest_ASCII fn=text::utf8::broadword::accepts,validate_sequence : every 5-byte pattern straddling an 8-byte word boundary: acceptor verdict == Table 3-7 well-formedness
    bw_case!(c13_broadword_window_word_edge, 16, 5, 5);
    //@ kind=B props=C13 bound=all_inputs_of_length_4 fn=text::utf8::broadword::accepts,validate_sequence : every byte string of length 4
    bw_case!(c13_broadword_len4, 4, 0, 4);
}
