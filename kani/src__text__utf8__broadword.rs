// ---- appended by /verif (cfg(kani) only): broadword acceptor on word-boundary windows (C13)
#[cfg(kani)]
#[allow(unused, unsafe_code)]
mod __verif_kani {
    use super::*;
    use crate::text::utf8::__verif_kani::wf_prefix;

    fn windowed<const LEN: usize>(at: usize, win: usize) -> [u8; LEN] {
        let mut b = [b'a'; LEN];
        let mut i = 0;
        while i < 8 { if i < win && at + i < LEN { b[at + i] = kani::any(); } i += 1; }
        b
    }

    macro_rules! bw_case {
        ($name:ident, $len:expr, $at:expr, $win:expr) => {
            #[kani::proof]
            #[kani::unwind(20)]
            pub fn $name() {
                let b: [u8; $len] = windowed::<$len>($at, $win);
                let accepted = accepts(&b);
                let wf = wf_prefix(&b, $len) == $len;
                assert!(accepted == wf);
            }
        };
    }

    //@ kind=B props=C13 tier=thorough bound=len=16,5_symbolic_bytes_at_5..10_rest_ASCII fn=text::utf8::broadword::accepts,validate_sequence : every 5-byte pattern straddling an 8-byte word boundary: acceptor verdict == Table 3-7 well-formedness
    bw_case!(c13_broadword_window_word_edge, 16, 5, 5);
    //@ kind=B props=C13 tier=thorough bound=all_inputs_of_length_4 fn=text::utf8::broadword::accepts,validate_sequence : every byte string of length 4
    bw_case!(c13_broadword_len4, 4, 0, 4);

    // ---- the three byte-level contracts the Verus unit c13_broadword uses as stubs (seam R4)
    fn byte_of(w: u64, k: usize) -> u8 { ((w >> (8 * k)) & 0xff) as u8 }

    //@ kind=B props=C13 bound=buffer_len<=19,every_pos:usize fn=text::utf8::broadword::load_word : for every position (incl. huge, overflowing ones) in a 19-byte buffer at every sub-length: Some exactly when 8 bytes remain, and memory byte k of the word is input[pos+k] (contract of the Verus stub; loop-free in pos, buffer length symbolic up to 19)
    #[kani::proof]
    #[kani::unwind(10)]
    pub fn c13_bw_load_word() {
        let b: [u8; 19] = kani::any();
        let n: usize = kani::any(); kani::assume(n <= 19);
        let input = &b[..n];
        let pos: usize = kani::any();
        match load_word(input, pos) {
            None => assert!(pos > n || n - pos < 8),
            Some(w) => {
                assert!(pos <= n && n - pos >= 8);
                let k: usize = kani::any(); kani::assume(k < 8);
                assert!(byte_of(w, k) == input[pos + k]);
            }
        }
    }

    //@ kind=B props=C13 bound=buffer_len<=43,every_pos:usize fn=text::utf8::broadword::load_block : for every position in a 43-byte buffer at every sub-length: Some exactly when 32 bytes remain, and (acc & HI == 0) exactly when all 32 bytes are ASCII (contract of the Verus stub)
    #[kani::proof]
    #[kani::unwind(34)]
    pub fn c13_bw_load_block() {
        let b: [u8; 43] = kani::any();
        let n: usize = kani::any(); kani::assume(n <= 43);
        let input = &b[..n];
        let pos: usize = kani::any();
        match load_block(input, pos) {
            None => assert!(pos > n || n - pos < 32),
            Some(acc) => {
                assert!(pos <= n && n - pos >= 32);
                let mut all_ascii = true; let mut k = 0;
                while k < 32 { if input[pos + k] > 0x7F { all_ascii = false; } k += 1; }
                assert!((acc & HI == 0) == all_ascii);
            }
        }
    }

    //@ kind=P props=C13 fn=text::utf8::broadword::first_high_byte : for every non-zero mask of high bits: the result is < 8, names a byte whose high bit is set, and every earlier memory byte is clear (contract of the Verus stub; all 2^64 words, loop-free)
    #[kani::proof]
    pub fn c13_bw_first_high_byte() {
        let hi: u64 = kani::any();
        kani::assume(hi != 0 && hi & !HI == 0);
        let r = first_high_byte(hi);
        assert!(r < 8);
        assert!(byte_of(hi, r) == 0x80);
        let k: usize = kani::any(); kani::assume(k < r);
        assert!(byte_of(hi, k) == 0);
    }
}
