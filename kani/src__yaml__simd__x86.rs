// ---- appended by /verif (cfg(kani) only): each vectorised YAML scanning kernel vs its scalar counterpart (C16)
#[cfg(kani)]
#[allow(unused, unsafe_code)]
mod __verif_kani {
    use super::*;

    fn any_bool() -> bool { kani::any() }
    const N: usize = 51; // 32 + 16 + 3: one AVX2 iteration, one SSE2 step, a scalar tail

    //@ kind=B props=C16 bound=every_40-byte_input,every_offset fn=yaml::simd::x86::classify_yaml_chars stubs=avx2_enabled : for all 40-byte inputs, every offset and both HAS_CR settings, with the AVX2 flag nondeterministic: None iff fewer than 16 bytes remain; otherwise width is 16 or 32 and for every lane i < width each mask bit i is set iff byte offset+i is the class byte (LF, CR only when HAS_CR, ':', '-', ' ', '"', '\'', '\\', '#'); no bits at or above width; plain_scalar_terminators is the union LF|':'|'#'(|CR)
    #[kani::proof]
    #[kani::unwind(42)]
    #[kani::stub(avx2_enabled, any_bool)]
    pub fn c16_classify_yaml_chars_lanes() {
        let b: [u8; 40] = kani::any();
        let off: usize = kani::any();
        kani::assume(off <= 41);
        let has_cr: bool = kani::any();
        let r = if has_cr { classify_yaml_chars::<true>(&b, off) } else { classify_yaml_chars::<false>(&b, off) };
        if off + 16 > 40 { assert!(r.is_none()); return; }
        let c = r.unwrap();
        assert!(c.width == 16 || (c.width == 32 && off + 32 <= 40));
        let i: usize = kani::any();
        kani::assume(i < c.width);
        let x = b[off + i];
        let bit = |m: u32| (m >> i) & 1 == 1;
        assert!(bit(c.newlines) == (x == b'\n'));
        assert!(bit(c.carriage_returns) == (has_cr && x == b'\r'));
        assert!(bit(c.colons) == (x == b':'));
        assert!(bit(c.hyphens) == (x == b'-'));
        assert!(bit(c.spaces) == (x == b' '));
        assert!(bit(c.quotes_double) == (x == b'"'));
        assert!(bit(c.quotes_single) == (x == b'\''));
        assert!(bit(c.backslashes) == (x == b'\\'));
        assert!(bit(c.hash) == (x == b'#'));
        if c.width == 16 { assert!((c.newlines | c.carriage_returns | c.colons | c.hyphens | c.spaces | c.quotes_double | c.quotes_single | c.backslashes | c.hash) >> 16 == 0); }
        let t = if has_cr { c.plain_scalar_terminators::<true>() } else { c.plain_scalar_terminators::<false>() };
        assert!(t == (c.newlines | c.colons | c.hash | if has_cr { c.carriage_returns } else { 0 }));
    }

    // The kernels read through raw pointers at `start + offset`; a symbolic `start` makes every load a symbolic-pointer
    // dereference and CBMC does not finish. Each kernel is therefore run from two CONCRETE starts (0 and 3, i.e. an aligned
    // and a misaligned slice) over a fully symbolic 51-byte buffer: 32 + 16 + 3 = one AVX2 iteration, one SSE2 step, a
    // scalar tail (from start 3: 32 + 16 exactly).
    macro_rules! c16_newline { ($name:ident, $start:expr) => {
        #[kani::proof]
        #[kani::unwind(54)]
        #[kani::stub(avx2_enabled, any_bool)]
        pub fn $name() {
            let b: [u8; N] = kani::any();
            assert!(find_newline_x86(&b, $start) == super::super::find_newline_scalar(&b, $start));
        }
    }; }
    //@ kind=B props=C16 bound=buffer_len=51,start=0 fn=find_newline_x86,find_newline_avx2,find_newline_sse2 stubs=avx2_enabled : every 51-byte buffer from start 0, AVX2 flag nondeterministic: same answer as find_newline_scalar
    c16_newline!(c16_find_newline_from0, 0);
    //@ kind=B props=C16 bound=buffer_len=51,start=3 fn=find_newline_x86,find_newline_avx2,find_newline_sse2 stubs=avx2_enabled : same from start 3
    c16_newline!(c16_find_newline_from3, 3);

    macro_rules! c16_quotes { ($name:ident, $start:expr) => {
        #[kani::proof]
        #[kani::unwind(54)]
        #[kani::stub(avx2_enabled, any_bool)]
        pub fn $name() {
            let b: [u8; N] = kani::any();
            let end: usize = kani::any();
            kani::assume($start < end && end <= N);
            assert!(find_quote_or_escape_x86(&b, $start, end) == super::super::find_quote_or_escape_scalar(&b, $start, end));
            assert!(find_single_quote_x86(&b, $start, end) == super::super::find_single_quote_scalar(&b, $start, end));
        }
    }; }
    //@ kind=B props=C16 bound=buffer_len=51,start=0,every_end fn=find_quote_or_escape_x86,find_single_quote_x86 stubs=avx2_enabled : every 51-byte buffer, start 0, every end <= len: same answers as the scalar find_quote_or_escape_scalar / find_single_quote_scalar
    c16_quotes!(c16_find_quotes_from0, 0);
    //@ kind=B props=C16 tier=thorough bound=buffer_len=51,start=3,every_end fn=find_quote_or_escape_x86,find_single_quote_x86 stubs=avx2_enabled : same from start 3
    c16_quotes!(c16_find_quotes_from3, 3);

    macro_rules! c16_spaces { ($name:ident, $start:expr) => {
        #[kani::proof]
        #[kani::unwind(54)]
        #[kani::stub(avx2_enabled, any_bool)]
        pub fn $name() {
            let b: [u8; N] = kani::any();
            let mut want = 0; let mut i = $start;
            while i < N && b[i] == b' ' { want += 1; i += 1; }
            assert!(count_leading_spaces_x86(&b, $start) == want);
        }
    }; }
    //@ kind=B props=C16 bound=buffer_len=51,start=0 fn=count_leading_spaces_x86 stubs=avx2_enabled : every 51-byte buffer from start 0: the number of leading spaces (== count_leading_spaces_scalar)
    c16_spaces!(c16_count_leading_spaces_from0, 0);
    //@ kind=B props=C16 bound=buffer_len=51,start=3 fn=count_leading_spaces_x86 stubs=avx2_enabled : same from start 3
    c16_spaces!(c16_count_leading_spaces_from3, 3);

    macro_rules! c16_anchor { ($name:ident, $start:expr) => {
        #[kani::proof]
        #[kani::unwind(54)]
        #[kani::stub(avx2_enabled, any_bool)]
        pub fn $name() {
            let b: [u8; N] = kani::any();
            assert!(parse_anchor_name(&b, $start) == super::super::scalar::parse_anchor_name_scalar(&b, $start));
        }
    }; }
    //@ kind=B props=C16 bound=buffer_len=51,start=0 fn=yaml::simd::x86::parse_anchor_name,parse_anchor_name_avx2 stubs=avx2_enabled : every 51-byte buffer from start 0: same answer as scalar::parse_anchor_name_scalar
    c16_anchor!(c16_parse_anchor_name_from0, 0);
    //@ kind=B props=C16 tier=thorough bound=buffer_len=51,start=3 fn=yaml::simd::x86::parse_anchor_name,parse_anchor_name_avx2 stubs=avx2_enabled : same from start 3
    c16_anchor!(c16_parse_anchor_name_from3, 3);

    macro_rules! c16_block { ($name:ident, $start:expr, $mi:expr) => {
        #[kani::proof]
        #[kani::unwind(54)]
        #[kani::stub(avx2_enabled, any_bool)]
        pub fn $name() {
            let b: [u8; N] = kani::any();
            let want = super::super::scalar::find_block_scalar_end_scalar(&b, $start, $mi);
            assert!(find_block_scalar_end(&b, $start, $mi) == Some(want));
        }
    }; }
    //@ kind=B props=C16 tier=thorough bound=buffer_len=51,start=0,min_indent=2 fn=yaml::simd::x86::find_block_scalar_end stubs=avx2_enabled : every 51-byte buffer from start 0 with min_indent 2: same answer as scalar::find_block_scalar_end_scalar
    c16_block!(c16_find_block_scalar_end_from0, 0, 2);
    //@ kind=B props=C16 tier=thorough bound=buffer_len=51,start=3,min_indent=4 fn=yaml::simd::x86::find_block_scalar_end stubs=avx2_enabled : same from start 3 with min_indent 4
    c16_block!(c16_find_block_scalar_end_from3, 3, 4);

    // ---- cross-checks of the intrinsic lane model used by the Verus unit c16_kernels (verus/speclib_simd.rs)
    //@ kind=P props=C16 fn=_mm256_set1_epi8,_mm256_loadu_si256,_mm256_cmpeq_epi8,_mm256_or_si256,_mm256_movemask_epi8 : lane semantics assumed by the Verus stubs, on the real AVX2 intrinsics, for ALL 32-byte vectors a, b and every byte c: loadu reads lane i from byte i; set1 broadcasts; cmpeq lane is 0xFF/0x00; or is lane-wise; bit i of movemask is the top bit of lane i
    #[kani::proof]
    pub fn c16_intrinsic_lanes_256() {
        let a: [u8; 32] = kani::any(); let b: [u8; 32] = kani::any(); let c: u8 = kani::any();
        let i: usize = kani::any(); kani::assume(i < 32);
        unsafe {
            let va = _mm256_loadu_si256(a.as_ptr().cast::<__m256i>());
            let vb = _mm256_loadu_si256(b.as_ptr().cast::<__m256i>());
            let vc = _mm256_set1_epi8(c as i8);
            let e1 = _mm256_cmpeq_epi8(va, vc);
            let e2 = _mm256_cmpeq_epi8(vb, vc);
            let o = _mm256_or_si256(e1, e2);
            let mut out = [0u8; 32];
            _mm256_storeu_si256(out.as_mut_ptr().cast::<__m256i>(), va); assert!(out[i] == a[i]);
            _mm256_storeu_si256(out.as_mut_ptr().cast::<__m256i>(), vc); assert!(out[i] == c);
            _mm256_storeu_si256(out.as_mut_ptr().cast::<__m256i>(), e1); assert!(out[i] == if a[i] == c { 0xFF } else { 0 });
            let l1 = out[i];
            _mm256_storeu_si256(out.as_mut_ptr().cast::<__m256i>(), e2); let l2 = out[i];
            _mm256_storeu_si256(out.as_mut_ptr().cast::<__m256i>(), o); assert!(out[i] == l1 | l2);
            let m1 = _mm256_movemask_epi8(e1) as u32;
            let mo = _mm256_movemask_epi8(o) as u32;
            let mv = _mm256_movemask_epi8(va) as u32;
            assert!(((m1 >> i) & 1 == 1) == (a[i] == c));
            assert!(((mo >> i) & 1 == 1) == (a[i] == c || b[i] == c));
            assert!(((mv >> i) & 1 == 1) == (a[i] >= 0x80));
        }
    }
    //@ kind=P props=C16 fn=_mm_set1_epi8,_mm_loadu_si128,_mm_cmpeq_epi8,_mm_or_si128,_mm_movemask_epi8 : the same lane semantics on the real SSE2 intrinsics for ALL 16-byte vectors; the movemask result is below 2^16
    #[kani::proof]
    pub fn c16_intrinsic_lanes_128() {
        let a: [u8; 16] = kani::any(); let b: [u8; 16] = kani::any(); let c: u8 = kani::any();
        let i: usize = kani::any(); kani::assume(i < 16);
        unsafe {
            let va = _mm_loadu_si128(a.as_ptr().cast::<__m128i>());
            let vb = _mm_loadu_si128(b.as_ptr().cast::<__m128i>());
            let vc = _mm_set1_epi8(c as i8);
            let e1 = _mm_cmpeq_epi8(va, vc);
            let e2 = _mm_cmpeq_epi8(vb, vc);
            let o = _mm_or_si128(e1, e2);
            let mut out = [0u8; 16];
            _mm_storeu_si128(out.as_mut_ptr().cast::<__m128i>(), va); assert!(out[i] == a[i]);
            _mm_storeu_si128(out.as_mut_ptr().cast::<__m128i>(), vc); assert!(out[i] == c);
            _mm_storeu_si128(out.as_mut_ptr().cast::<__m128i>(), e1); assert!(out[i] == if a[i] == c { 0xFF } else { 0 });
            let l1 = out[i];
            _mm_storeu_si128(out.as_mut_ptr().cast::<__m128i>(), e2); let l2 = out[i];
            _mm_storeu_si128(out.as_mut_ptr().cast::<__m128i>(), o); assert!(out[i] == l1 | l2);
            let m1 = _mm_movemask_epi8(e1) as u32;
            let mo = _mm_movemask_epi8(o) as u32;
            let mv = _mm_movemask_epi8(va) as u32;
            assert!(m1 < 0x1_0000 && mo < 0x1_0000 && mv < 0x1_0000);
            assert!(((m1 >> i) & 1 == 1) == (a[i] == c));
            assert!(((mo >> i) & 1 == 1) == (a[i] == c || b[i] == c));
            assert!(((mv >> i) & 1 == 1) == (a[i] >= 0x80));
        }
    }
}
