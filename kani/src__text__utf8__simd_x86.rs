// ---- appended by /verif (cfg(kani) only): AVX2 acceptor soundness on block-boundary windows (C13)
#[cfg(kani)]
#[allow(unused, unsafe_code)]
mod __verif_kani {
    use super::*;
    use crate::text::utf8::__verif_kani::wf_prefix;

    /// input of length LEN: ASCII 'a' everywhere except a symbolic window of WIN bytes at offset AT
    fn windowed<const LEN: usize>(at: usize, win: usize) -> [u8; LEN] {
        let mut b = [b'a'; LEN];
        let mut i = 0;
        while i < 8 { if i < win && at + i < LEN { b[at + i] = kani::any(); } i += 1; }
        b
    }

    macro_rules! avx2_case {
        ($name:ident, $len:expr, $at:expr, $win:expr) => {
            #[kani::proof]
            #[kani::unwind(70)]
            #[kani::stub(core::arch::x86_64::_mm256_max_epu8, crate::__verif_models::model_mm256_max_epu8)]
            #[kani::stub(core::arch::x86_64::_mm256_testz_si256, crate::__verif_models::model_mm256_testz_si256)]
            pub fn $name() {
                let b: [u8; $len] = windowed::<$len>($at, $win);
                let accepted = unsafe { validate_utf8_avx2(&b) };
                let wf = wf_prefix(&b, $len) == $len;
                // the public engine returns Ok when the acceptor says yes and otherwise defers to the scalar
                // validator, so engine == definition iff the acceptor never accepts an ill-formed input
                if accepted { assert!(wf); }
                // and it should accept every well-formed input (otherwise the fast path is dead, not wrong)
                if wf { assert!(accepted); }
            }
        };
    }

    //@ kind=B props=C13 bound=len=64,6_symbolic_bytes_at_27..33_rest_ASCII fn=validate_utf8_avx2,check_block stubs=_mm256_max_epu8,_mm256_testz_si256 : every 6-byte pattern straddling the first 32-byte block boundary, followed by a full ASCII block and the zero tail block: acceptor verdict == Table 3-7 well-formedness
    avx2_case!(c13_avx2_window_block_edge_32, 64, 27, 6);
    //@ kind=B props=C13 bound=len=64,5_symbolic_bytes_at_59..64_rest_ASCII fn=validate_utf8_avx2,check_block stubs=_mm256_max_epu8,_mm256_testz_si256 : every 5-byte pattern at the very end of an input whose length is a multiple of 32 (zero-padded tail block): acceptor verdict == well-formedness (truncated sequences at the end must be rejected)
    avx2_case!(c13_avx2_window_end_len64, 64, 59, 5);
    //@ kind=B props=C13 tier=thorough bound=len=40,6_symbolic_bytes_at_34..40_rest_ASCII fn=validate_utf8_avx2,check_block stubs=_mm256_max_epu8,_mm256_testz_si256 : every 6-byte pattern at the end of a partial tail block: acceptor verdict == well-formedness
    avx2_case!(c13_avx2_window_tail_len40, 40, 34, 6);
    //@ kind=B props=C13 tier=thorough bound=len=7_all_symbolic fn=validate_utf8_avx2,check_block stubs=_mm256_max_epu8,_mm256_testz_si256 : every byte string of length 7 (tail-only path): acceptor verdict == well-formedness
    avx2_case!(c13_avx2_short_len7, 7, 0, 7);
}
