// ---- appended by /verif (cfg(kani) only): contracts for the in-word select kernels (C02, C01)
#[cfg(kani)]
#[allow(unused, unsafe_code)]
mod __verif_kani {
    use super::*;
    use crate::__verif_models::*;

    // ref_select_in_word and ref_popcount are themselves loop programs; tie them together once so the
    // reference is not just "whatever the loop does": the result is < 64 iff k < popcount, the bit at the
    // result is set, and exactly k set bits lie below it.
    //@ kind=P props=C02,C01 fn=__verif_models::ref_select_in_word : the reference itself satisfies the definition: r<64 iff k<popcount(x), bit r set, exactly k set bits below r
    #[kani::proof]
    #[kani::unwind(65)]
    pub fn c02_ref_select_is_definition() {
        let x: u64 = kani::any();
        let k: u32 = kani::any();
        let r = ref_select_in_word(x, k);
        if k < ref_popcount(x) {
            assert!(r < 64);
            assert!((x >> r) & 1 == 1);
            let below = if r == 0 { 0 } else { x & (u64::MAX >> (64 - r)) };
            assert!(ref_popcount(below) == k);
        } else {
            assert!(r == 64);
        }
    }

    /// count_ones (the intrinsic Verus assumes a spec for) equals the one-bit-at-a-time count
    //@ kind=P props=C02,C01 fn=u64::count_ones : count_ones(x) == bit-at-a-time popcount for all x (discharges the Verus assume_specification)
    #[kani::proof]
    #[kani::unwind(65)]
    pub fn c02_count_ones_is_popcount() {
        let x: u64 = kani::any();
        assert!(x.count_ones() == ref_popcount(x));
    }

    //@ kind=P props=C02,C01 fn=select_in_word_ctz : == ref_select_in_word(x,k) for all x:u64, k:u32
    #[kani::proof]
    #[kani::unwind(66)]
    pub fn c02_select_in_word_ctz() {
        let x: u64 = kani::any();
        let k: u32 = kani::any();
        assert!(select_in_word_ctz(x, k) == ref_select_in_word(x, k));
    }

    //@ kind=P props=C02 fn=select_in_word_broadword : == ref_select_in_word(x,k) for all x:u64, k:u32
    #[kani::proof]
    #[kani::unwind(65)]
    pub fn c02_select_in_word_broadword() {
        let x: u64 = kani::any();
        let k: u32 = kani::any();
        assert!(select_in_word_broadword(x, k) == ref_select_in_word(x, k));
    }

    //@ kind=P props=C02,C01 fn=util::simd::x86::select_in_word_pdep stubs=_pdep_u64 : == ref_select_in_word(x,k) for all x:u64, k:u32
    #[kani::proof]
    #[kani::unwind(65)]
    #[kani::stub(core::arch::x86_64::_pdep_u64, crate::__verif_models::model_pdep_u64)]
    pub fn c02_select_in_word_pdep() {
        let x: u64 = kani::any();
        let k: u32 = kani::any();
        let r = unsafe { crate::util::simd::x86::select_in_word_pdep(x, k) };
        assert!(r == ref_select_in_word(x, k));
    }

    fn any_bool() -> bool { kani::any() }

    /// public dispatcher, feature flag nondeterministic: both arms explored on any host
    //@ kind=P props=C02,C01 fn=select_in_word stubs=_pdep_u64,has_fast_bmi2 : == ref_select_in_word(x,k) for all x,k with the BMI2 flag nondeterministic (both arms)
    #[kani::proof]
    #[kani::unwind(66)]
    #[kani::stub(core::arch::x86_64::_pdep_u64, crate::__verif_models::model_pdep_u64)]
    #[kani::stub(crate::util::simd::x86::has_fast_bmi2, any_bool)]
    pub fn c02_select_in_word_dispatch() {
        let x: u64 = kani::any();
        let k: u32 = kani::any();
        assert!(select_in_word(x, k) == ref_select_in_word(x, k));
    }
}
