// ---- appended by /verif (cfg(kani) only): the line-break rule (C12)
#[cfg(kani)]
#[allow(unused, unsafe_code)]
mod __verif_kani {
    use super::*;

    //@ kind=B props=C12 bound=every_3-byte_window,slice_lengths_0..=3,every_pos fn=line_break_len,is_line_break : for every 3-byte window, every slice length 0..=3 and every pos: width is 2 exactly for CR followed by LF inside the slice, 1 for a lone CR or LF, 0 otherwise or past the end; is_line_break is exactly {LF, CR}
    #[kani::proof]
    pub fn c12_line_break_len() {
        let w: [u8; 3] = kani::any();
        let n: usize = kani::any();
        kani::assume(n <= 3);
        let pos: usize = kani::any();
        let t = &w[..n];
        let r = line_break_len(t, pos);
        if pos >= n { assert!(r == 0); }
        else if t[pos] == b'\r' && pos + 1 < n && t[pos + 1] == b'\n' { assert!(r == 2); }
        else if t[pos] == b'\r' || t[pos] == b'\n' { assert!(r == 1); }
        else { assert!(r == 0); }
        let b: u8 = kani::any();
        assert!(is_line_break(b) == (b == b'\n' || b == b'\r'));
    }
}
