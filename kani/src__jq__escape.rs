// ---- appended by /verif (cfg(kani) only): JSON string escaping per character, all four writers (C09)
#[cfg(kani)]
#[allow(unused, unsafe_code)]
mod __verif_kani {
    use super::*;

    struct Sink { buf: [u8; 16], len: usize }
    impl core::fmt::Write for Sink {
        fn write_str(&mut self, s: &str) -> core::fmt::Result {
            let b = s.as_bytes();
            let mut i = 0;
            while i < b.len() { if self.len >= 16 { return Err(core::fmt::Error); } self.buf[self.len] = b[i]; self.len += 1; i += 1; }
            Ok(())
        }
    }

    fn hex(b: u8) -> Option<u32> {
        if b >= b'0' && b <= b'9' { Some((b - b'0') as u32) } else if b >= b'a' && b <= b'f' { Some((b - b'a') as u32 + 10) }
        else if b >= b'A' && b <= b'F' { Some((b - b'A') as u32 + 10) } else { None }
    }
    fn u4(o: &[u8], at: usize) -> Option<u32> {
        Some((hex(o[at])? << 12) | (hex(o[at + 1])? << 8) | (hex(o[at + 2])? << 4) | hex(o[at + 3])?)
    }
    /// RFC 8259 section 7 decoder for a JSON string body that encodes exactly ONE character; None if it is not that
    fn decode_one(o: &[u8], n: usize) -> Option<u32> {
        if n == 0 { return None; }
        if o[0] != b'\\' {
            // unescaped: must be the UTF-8 of one scalar value, and not a character that JSON forbids raw
            if o[0] == b'"' || o[0] < 0x20 { return None; }
            let (cp, len) = crate::text::utf8::decode_code_point(&o[..n])?;
            return if len == n { Some(cp) } else { None };
        }
        if n == 2 {
            return match o[1] { b'"' => Some(0x22), b'\\' => Some(0x5C), b'/' => Some(0x2F), b'b' => Some(8), b'f' => Some(12),
                                b'n' => Some(10), b'r' => Some(13), b't' => Some(9), _ => None };
        }
        if n == 6 && o[1] == b'u' {
            let v = u4(o, 2)?;
            return if v >= 0xD800 && v <= 0xDFFF { None } else { Some(v) };
        }
        if n == 12 && o[1] == b'u' && o[6] == b'\\' && o[7] == b'u' {
            let hi = u4(o, 2)?; let lo = u4(o, 8)?;
            if hi >= 0xD800 && hi <= 0xDBFF && lo >= 0xDC00 && lo <= 0xDFFF { return Some(0x10000 + ((hi - 0xD800) << 10) + (lo - 0xDC00)); }
        }
        None
    }

    fn run(which: u8, c: char) -> Sink {
        let mut tmp = [0u8; 4];
        let s: &str = c.encode_utf8(&mut tmp);
        let mut out = Sink { buf: [0; 16], len: 0 };
        let r = match which { 0 => write_json_body_jq(&mut out, s), 1 => write_json_body_jq_ascii(&mut out, s),
                              2 => write_json_body_yq(&mut out, s), _ => write_json_body_yq_ascii(&mut out, s) };
        assert!(r.is_ok());
        out
    }
    fn must_escape(which: u8, c: char) -> bool {
        let cp = c as u32;
        let base = cp < 0x20 || c == '"' || c == '\\';
        match which { 0 => base || cp == 0x7F, 1 => base || cp == 0x7F || cp > 0x7F, 2 => base, _ => base || cp > 0x7F }
    }
    fn any_bool() -> bool { kani::any() }
    /// contract of find_json_escape, proved for every buffer and start by the Verus unit c09_scanner (seam R4)
    fn contract_find_json_escape(bytes: &[u8], start: usize) -> usize {
        let mut i = start;
        while i < bytes.len() { let b = bytes[i]; if b == b'"' || b == b'\\' || b < 0x20 { return i; } i += 1; }
        bytes.len()
    }
    /// class 0: ASCII, 1: other BMP (2-3 byte UTF-8), 2: supplementary planes (4-byte UTF-8)
    fn any_char_in(class: u8) -> char {
        let c: char = kani::any();
        let cp = c as u32;
        match class { 0 => kani::assume(cp < 0x80), 1 => kani::assume(cp >= 0x80 && cp <= 0xFFFF), _ => kani::assume(cp > 0xFFFF) }
        c
    }
    fn check(which: u8, class: u8) {
        let c = any_char_in(class);
        let out = run(which, c);
        // round trip: the body decodes (RFC 8259) back to exactly c
        assert!(decode_one(&out.buf, out.len) == Some(c as u32));
        // escaped exactly when the convention requires it
        assert!((out.buf[0] == b'\\') == must_escape(which, c));
    }

    macro_rules! char_case {
        ($name:ident, $which:expr, $class:expr) => {
            #[kani::proof]
            #[kani::unwind(7)]
            #[kani::stub(crate::util::simd::escape::find_json_escape, contract_find_json_escape)]
            pub fn $name() { check($which, $class); }
        };
    }
    //@ kind=P props=C09 fn=write_json_body_jq : all 128 ASCII characters: the body written for the one-character string decodes (RFC 8259 section 7) back to the character, and it is escaped iff the convention requires: C0 controls, DEL, quote, backslash
    char_case!(c09_jq_ascii, 0, 0);
    //@ kind=P props=C09 fn=write_json_body_jq : every non-ASCII BMP scalar value (U+0080..U+FFFF without surrogates): the body written for the one-character string decodes (RFC 8259 section 7) back to the character, and it is escaped iff the convention requires: C0 controls, DEL, quote, backslash
    char_case!(c09_jq_bmp, 0, 1);
    //@ kind=P props=C09 fn=write_json_body_jq : every supplementary-plane scalar value (U+10000..U+10FFFF): the body written for the one-character string decodes (RFC 8259 section 7) back to the character, and it is escaped iff the convention requires: C0 controls, DEL, quote, backslash
    char_case!(c09_jq_supp, 0, 2);
    //@ kind=P props=C09 fn=write_json_body_jq_ascii : all 128 ASCII characters: the body written for the one-character string decodes (RFC 8259 section 7) back to the character, and it is escaped iff the convention requires: C0 controls, DEL, quote, backslash and every non-ASCII character (surrogate pairs above the BMP)
    char_case!(c09_jq_ascii_ascii, 1, 0);
    //@ kind=P props=C09 fn=write_json_body_jq_ascii : every non-ASCII BMP scalar value (U+0080..U+FFFF without surrogates): the body written for the one-character string decodes (RFC 8259 section 7) back to the character, and it is escaped iff the convention requires: C0 controls, DEL, quote, backslash and every non-ASCII character (surrogate pairs above the BMP)
    char_case!(c09_jq_ascii_bmp, 1, 1);
    //@ kind=P props=C09 fn=write_json_body_jq_ascii : every supplementary-plane scalar value (U+10000..U+10FFFF): the body written for the one-character string decodes (RFC 8259 section 7) back to the character, and it is escaped iff the convention requires: C0 controls, DEL, quote, backslash and every non-ASCII character (surrogate pairs above the BMP)
    char_case!(c09_jq_ascii_supp, 1, 2);
    //@ kind=P props=C09 stubs=find_json_escape fn=write_json_body_yq : all 128 ASCII characters: the body written for the one-character string decodes (RFC 8259 section 7) back to the character, and it is escaped iff the convention requires: C0 controls, quote, backslash (DEL and non-ASCII pass through; exercises the find_json_escape span copy)
    char_case!(c09_yq_ascii, 2, 0);
    //@ kind=P props=C09 stubs=find_json_escape fn=write_json_body_yq : every non-ASCII BMP scalar value (U+0080..U+FFFF without surrogates): the body written for the one-character string decodes (RFC 8259 section 7) back to the character, and it is escaped iff the convention requires: C0 controls, quote, backslash (DEL and non-ASCII pass through; exercises the find_json_escape span copy)
    char_case!(c09_yq_bmp, 2, 1);
    //@ kind=P props=C09 stubs=find_json_escape fn=write_json_body_yq : every supplementary-plane scalar value (U+10000..U+10FFFF): the body written for the one-character string decodes (RFC 8259 section 7) back to the character, and it is escaped iff the convention requires: C0 controls, quote, backslash (DEL and non-ASCII pass through; exercises the find_json_escape span copy)
    char_case!(c09_yq_supp, 2, 2);
    //@ kind=P props=C09 stubs=find_json_escape fn=write_json_body_yq_ascii : all 128 ASCII characters: the body written for the one-character string decodes (RFC 8259 section 7) back to the character, and it is escaped iff the convention requires: C0 controls, quote, backslash and every non-ASCII character
    char_case!(c09_yq_ascii_ascii, 3, 0);
    //@ kind=P props=C09 stubs=find_json_escape fn=write_json_body_yq_ascii : every non-ASCII BMP scalar value (U+0080..U+FFFF without surrogates): the body written for the one-character string decodes (RFC 8259 section 7) back to the character, and it is escaped iff the convention requires: C0 controls, quote, backslash and every non-ASCII character
    char_case!(c09_yq_ascii_bmp, 3, 1);
    //@ kind=P props=C09 stubs=find_json_escape fn=write_json_body_yq_ascii : every supplementary-plane scalar value (U+10000..U+10FFFF): the body written for the one-character string decodes (RFC 8259 section 7) back to the character, and it is escaped iff the convention requires: C0 controls, quote, backslash and every non-ASCII character
    char_case!(c09_yq_ascii_supp, 3, 2);

    //@ kind=B props=C09 tier=thorough bound=strings_of_2_chars fn=write_json_body_jq,write_json_body_jq_ascii,write_json_body_yq,write_json_body_yq_ascii : concatenation: for every two-character string the body is the body of the first character followed by the body of the second (so strings round-trip character by character)
    #[kani::proof]
    #[kani::unwind(34)]
    #[kani::stub(crate::util::simd::escape::find_json_escape, contract_find_json_escape)]
    pub fn c09_two_chars_concatenate() {
        let which: u8 = kani::any();
        kani::assume(which < 4);
        let a: char = kani::any();
        let b: char = kani::any();
        let oa = run(which, a);
        let ob = run(which, b);
        let mut tmp = [0u8; 8];
        let la = a.encode_utf8(&mut tmp).len();
        let lb = b.encode_utf8(&mut tmp[la..]).len();
        let s = core::str::from_utf8(&tmp[..la + lb]).unwrap();
        struct Big { buf: [u8; 32], len: usize }
        impl core::fmt::Write for Big {
            fn write_str(&mut self, s: &str) -> core::fmt::Result {
                let b = s.as_bytes(); let mut i = 0;
                while i < b.len() { if self.len >= 32 { return Err(core::fmt::Error); } self.buf[self.len] = b[i]; self.len += 1; i += 1; }
                Ok(())
            }
        }
        let mut out = Big { buf: [0; 32], len: 0 };
        let r = match which { 0 => write_json_body_jq(&mut out, s), 1 => write_json_body_jq_ascii(&mut out, s),
                              2 => write_json_body_yq(&mut out, s), _ => write_json_body_yq_ascii(&mut out, s) };
        assert!(r.is_ok());
        assert!(out.len == oa.len + ob.len);
        let mut i = 0;
        while i < 24 {
            if i < oa.len { assert!(out.buf[i] == oa.buf[i]); }
            else if i < oa.len + ob.len { assert!(out.buf[i] == ob.buf[i - oa.len]); }
            i += 1;
        }
    }
}
