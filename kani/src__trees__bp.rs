// ---- appended by /verif (cfg(kani) only): in-word parenthesis kernels and byte tables (C02, C04)
#[cfg(kani)]
#[allow(unused, unsafe_code)]
mod __verif_kani {
    use super::*;
    use crate::__verif_models::*;

    // ---- definitions: left-to-right excess scan, 1 = open (+1), 0 = close (-1)

    /// first bit position in [0, nbits) where the running excess (starting at `init`) reaches `target`
    /// *on a close bit*; nbits otherwise
    fn ref_scan_to(word: u64, start: u32, nbits: u32, init: i64, target: i64) -> u32 {
        let mut e = init;
        let mut i = start;
        while i < nbits {
            if (word >> i) & 1 == 1 { e += 1; } else { e -= 1; if e == target { return i; } }
            i += 1;
        }
        nbits
    }
    /// (min prefix excess over the first n bits, counting only positions after a close, capped at 0; total excess)
    fn ref_min_excess(word: u64, n: u32) -> (i64, i64) {
        let mut e = 0i64;
        let mut m = 0i64;
        let mut i = 0;
        while i < n {
            if (word >> i) & 1 == 1 { e += 1; } else { e -= 1; if e < m { m = e; } }
            i += 1;
        }
        (m, e)
    }
    /// scanning bits n-1 down to 0: (max running excess, capped below at 0; total)
    fn ref_max_excess_rev(word: u64, n: u32) -> (i64, i64) {
        let mut e = 0i64;
        let mut m = 0i64;
        let mut i = n;
        while i > 0 {
            i -= 1;
            if (word >> i) & 1 == 1 { e += 1; if e > m { m = e; } } else { e -= 1; }
        }
        (m, e)
    }

    //@ kind=P props=C02,C04 fn=find_unmatched_close_in_word : == position of the first close whose running excess drops below 0 (64 if none), all x:u64
    #[kani::proof]
    #[kani::unwind(65)]
    pub fn c02_find_unmatched_close_in_word() {
        let x: u64 = kani::any();
        assert!(find_unmatched_close_in_word(x) == ref_scan_to(x, 0, 64, 0, -1));
    }

    //@ kind=P props=C02,C04 fn=find_close_in_word : all words, all p:u32: None for p>=64; Some(p) if bit p is a close; else the first q>p in the word with excess(p..=q)==0, None if the match is not in this word
    #[kani::proof]
    #[kani::unwind(65)]
    pub fn c02_find_close_in_word() {
        let x: u64 = kani::any();
        let p: u32 = kani::any();
        let r = find_close_in_word(x, p);
        if p >= 64 {
            assert!(r.is_none());
        } else if (x >> p) & 1 == 0 {
            assert!(r == Some(p));
        } else {
            let q = ref_scan_to(x, p + 1, 64, 1, 0);
            if q < 64 { assert!(r == Some(q)); } else { assert!(r.is_none()); }
        }
    }

    //@ kind=P props=C02,C04 fn=BYTE_MIN_EXCESS,BYTE_TOTAL_EXCESS,BYTE_MAX_EXCESS_REV : every one of the 256 rows equals its defining scan
    #[kani::proof]
    #[kani::unwind(9)]
    pub fn c02_bp_byte_tables() {
        let b: u8 = kani::any();
        let (m, t) = ref_min_excess(b as u64, 8);
        assert!(BYTE_MIN_EXCESS[b as usize] as i64 == m);
        assert!(BYTE_TOTAL_EXCESS[b as usize] as i64 == t);
        let (mx, t2) = ref_max_excess_rev(b as u64, 8);
        assert!(BYTE_MAX_EXCESS_REV[b as usize] as i64 == mx);
        assert!(t2 == t);
    }

    //@ kind=P props=C02,C04 fn=BYTE_FIND_CLOSE : all 256 bytes x 16 initial excesses: entry == first bit where excess (starting at init 1..=16) reaches 0, 8 if none
    #[kani::proof]
    #[kani::unwind(9)]
    pub fn c02_bp_byte_find_close_table() {
        let b: u8 = kani::any();
        let i: usize = kani::any();
        kani::assume(i < 16);
        assert!(BYTE_FIND_CLOSE[b as usize][i] as u32 == ref_scan_to(b as u64, 0, 8, (i + 1) as i64, 0));
    }

    //@ kind=P props=C02,C04 fn=word_min_excess_unrolled : all words: (min prefix excess, total excess) of the 64-bit scan
    #[kani::proof]
    #[kani::unwind(65)]
    pub fn c02_word_min_excess_unrolled() {
        let x: u64 = kani::any();
        let (m, t) = word_min_excess_unrolled(x);
        let (rm, rt) = ref_min_excess(x, 64);
        assert!(m as i64 == rm && t as i64 == rt);
    }

    //@ kind=P props=C02,C04 fn=word_min_excess : all words, all valid_bits<=64: (min prefix excess, total) over the first valid_bits bits; bits past valid_bits never matter
    #[kani::proof]
    #[kani::unwind(65)]
    pub fn c02_word_min_excess_partial() {
        let x: u64 = kani::any();
        let n: usize = kani::any();
        kani::assume(n <= 64);
        let (rm, rt) = ref_min_excess(x, n as u32);
        let (m, t) = word_min_excess(x, n);
        assert!(m as i64 == rm && t as i64 == rt);
    }

    //@ kind=P props=C02,C04 fn=word_min_excess_i32 : all words, all valid_bits<=64: (min prefix excess, total) over the first valid_bits bits
    #[kani::proof]
    #[kani::unwind(65)]
    pub fn c02_word_min_excess_i32_partial() {
        let x: u64 = kani::any();
        let n: usize = kani::any();
        kani::assume(n <= 64);
        let (rm, rt) = ref_min_excess(x, n as u32);
        let (m2, t2) = word_min_excess_i32(x, n);
        assert!(m2 as i64 == rm && t2 as i64 == rt);
    }

    //@ kind=P props=C02,C04 fn=word_max_excess_rev : all words: (max running excess scanning bit 63 down to 0, total)
    #[kani::proof]
    #[kani::unwind(65)]
    pub fn c02_word_max_excess_rev() {
        let x: u64 = kani::any();
        let (m, t) = word_max_excess_rev(x);
        let (rm, rt) = ref_max_excess_rev(x, 64);
        assert!(m as i64 == rm && t as i64 == rt);
    }

    // ---------------------------------------------------------------- bounded whole-structure twins (C04)
    fn bitw(w: &[u64], i: usize) -> bool { (w[i / 64] >> (i % 64)) & 1 == 1 }
    /// definition: matching close of the open at p = first q > p with excess(p..=q) == 0
    fn naive_find_close(w: &[u64], len: usize, p: usize) -> Option<usize> {
        if p >= len || !bitw(w, p) { return None; }
        let mut e = 0i32; let mut q = p;
        while q < len { if bitw(w, q) { e += 1; } else { e -= 1; if e == 0 { return Some(q); } } q += 1; }
        None
    }
    fn naive_find_open(w: &[u64], len: usize, p: usize) -> Option<usize> {
        if p >= len || bitw(w, p) { return None; }
        let mut e = 0i32; let mut q = p + 1;
        while q > 0 { q -= 1; if bitw(w, q) { e += 1; if e == 0 { return Some(q); } } else { e -= 1; } }
        None
    }
    fn naive_enclose(w: &[u64], len: usize, p: usize) -> Option<usize> {
        if p >= len || !bitw(w, p) { return None; }
        let mut e = 0i32; let mut q = p;
        while q > 0 { q -= 1; if bitw(w, q) { e += 1; if e == 1 { return Some(q); } } else { e -= 1; } }
        None
    }
    fn naive_rank1(w: &[u64], len: usize, p: usize) -> usize {
        let n = if p < len { p } else { len };
        let mut c = 0; let mut i = 0;
        while i < n { if bitw(w, i) { c += 1; } i += 1; }
        c
    }

    macro_rules! word_fast_case {
        ($name:ident, $start:expr, $valid:expr) => {
            #[kani::proof]
            #[kani::unwind(66)]
            pub fn $name() {
                let x: u64 = kani::any();
                let init: i32 = kani::any();
                kani::assume(init >= -1 && init <= 70);
                let r = find_close_in_word_fast(x, $start, init, $valid);
                if $start >= $valid || init <= 0 { assert!(r.is_none()); }
                else {
                    let q = ref_scan_to(x, $start as u32, $valid as u32, init as i64, 0);
                    if q < $valid as u32 { assert!(r == Some(q as usize)); } else { assert!(r.is_none()); }
                }
            }
        };
    }
    //@ kind=B props=C04 bound=start=0,valid_bits=64,excess_in_-1..=70 fn=find_close_in_word_fast : all words, start 0, a full word: first position where the excess (starting from initial_excess) reaches 0, None if none / initial_excess <= 0
    word_fast_case!(c04_find_close_in_word_fast_0_64, 0usize, 64usize);
    //@ kind=B props=C04 bound=start=0,valid_bits=9 fn=find_close_in_word_fast : final partial word with a partial last byte: bits at or past valid_bits never produce a match
    word_fast_case!(c04_find_close_in_word_fast_0_9, 0usize, 9usize);
    //@ kind=B props=C04 bound=start=3,valid_bits=13 fn=find_close_in_word_fast : unaligned start and unaligned end inside the second byte
    word_fast_case!(c04_find_close_in_word_fast_3_13, 3usize, 13usize);
    //@ kind=B props=C04 bound=start=13,valid_bits=64 fn=find_close_in_word_fast : unaligned start, full word
    word_fast_case!(c04_find_close_in_word_fast_13_64, 13usize, 64usize);
    //@ kind=B props=C04 bound=start=58,valid_bits=62 fn=find_close_in_word_fast : start and end inside the last byte
    word_fast_case!(c04_find_close_in_word_fast_58_62, 58usize, 62usize);

    //@ kind=B props=C04 tier=thorough bound=1_word,len=21 fn=BalancedParens::{new,find_close,find_open,enclose} : every 21-bit parenthesis string (one symbolic word, bits past len arbitrary) and every p: find_close / find_open / enclose == the naive excess scan; exercises the FromL0/ScanWord/CheckL* state machine on its smallest instance
    #[kani::proof]
    #[kani::unwind(24)]
    pub fn c04_bp_one_word_find() {
        let w: [u64; 1] = kani::any();
        let len = 21usize;
        let bp = BalancedParens::new(vec![w[0]], len);
        let p: usize = kani::any();
        kani::assume(p <= len + 1);
        assert!(bp.find_close(p) == naive_find_close(&w, len, p));
        assert!(bp.find_open(p) == naive_find_open(&w, len, p));
        assert!(bp.enclose(p) == naive_enclose(&w, len, p));
    }

    //@ kind=B props=C04 tier=thorough bound=2_words,len=100 fn=BalancedParens::{new,find_close,find_open,enclose,rank1,rank0,excess,select0,first_child,next_sibling,subtree_size,depth} : 2 symbolic words (balanced or not), len = 100, symbolic position: every navigation answer equals the left-to-right / right-to-left excess-scan definition over the first len bits; stray bits past len are ignored
    #[kani::proof]
    #[kani::unwind(104)]
    pub fn c04_bp_small_navigation() {
        let w: [u64; 2] = kani::any();
        let len = 100usize;
        let bp = BalancedParens::new(vec![w[0], w[1]], len);
        let p: usize = kani::any();
        kani::assume(p <= len + 1);
        assert!(bp.find_close(p) == naive_find_close(&w, len, p));
        assert!(bp.find_open(p) == naive_find_open(&w, len, p));
        assert!(bp.enclose(p) == naive_enclose(&w, len, p));
        assert!(bp.rank1(p) == naive_rank1(&w, len, p));
        let m = if p < len { p } else { len };
        assert!(bp.rank0(p) == m - naive_rank1(&w, len, p));
        let fc = naive_find_close(&w, len, p);
        assert!(bp.subtree_size(p) == fc.map(|c| (c - p) / 2));
        assert!(bp.next_sibling(p) == match fc { Some(c) if c + 1 < len && bitw(&w, c + 1) => Some(c + 1), _ => None });
        assert!(bp.first_child(p) == if p + 1 < len && bitw(&w, p) && bitw(&w, p + 1) { Some(p + 1) } else { None });
    }

    fn contract_select_in_word(x: u64, k: u32) -> u32 {
        let mut c = 0u32; let mut i = 0u32;
        while i < 64 { if (x >> i) & 1 == 1 { if c == k { return i; } c += 1; } i += 1; }
        64
    }
    fn contract_block_popcount(block: &[u64]) -> usize {
        let mut t = 0usize; let mut i = 0;
        while i < block.len() { t += block[i].count_ones() as usize; i += 1; }
        t
    }
    fn naive_select1(w: &[u64], len: usize, k: usize) -> Option<usize> {
        let mut c = 0; let mut i = 0;
        while i < len { if bitw(w, i) { if c == k { return Some(i); } c += 1; } i += 1; }
        None
    }

    macro_rules! cspoppy_case {
        ($name:ident, $rate:expr) => {
            #[kani::proof]
            #[kani::unwind(104)]
            #[kani::stub(crate::util::broadword::select_in_word, contract_select_in_word)]
            #[kani::stub(crate::bits::scan::block_popcount, contract_block_popcount)]
            pub fn $name() {
                let w: [u64; 2] = kani::any();
                let len = 100usize;
                let bp = BalancedParens::new_with_cspoppy_config(vec![w[0], w[1]], len, crate::Config { select_sample_rate: $rate });
                let k: usize = kani::any();
                assert!(bp.select1(k) == naive_select1(&w, len, k));
            }
        };
    }
    //@ kind=B props=C04 tier=thorough bound=2_words,len=100,rate=3 fn=WithCsPoppy::{build_with_rate,select1} : CS-Poppy select at a sample rate that is not a power of two: select1(k) == position of the k-th open among the first len bits for every k
    cspoppy_case!(c04_cspoppy_select_rate3, 3);
    //@ kind=B props=C04 tier=thorough bound=2_words,len=100,rate=256 fn=WithCsPoppy::{build_with_rate,select1} : default rate
    cspoppy_case!(c04_cspoppy_select_rate256, 256);
}
