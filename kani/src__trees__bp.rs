// ---- appended by /verif (cfg(kani) only): in-word parenthesis kernels and byte tables (C02, C04)
#[cfg(kani)]
#[allow(unused, unsafe_code)]
mod __verif_kani {
    use super::*;
    use crate::__verif_models::*;

    // ---- definitions: left-to-right excess scan, 1 = open (+1), 0 = close (-1)

    /// first bit position in [0, nbits) where the running excess (starting at `init`) reaches `target`
    /// *on a close bit*; nbits otherwise
    fn ref_scan_to(word: u64, start: u32, nbits: u32, init: i64, target: i64) -> u32 {
        let mut e = init;
        let mut i = start;
        while i < nbits {
            if (word >> i) & 1 == 1 { e += 1; } else { e -= 1; if e == target { return i; } }
            i += 1;
        }
        nbits
    }
    /// (min prefix excess over the first n bits, counting only positions after a close, capped at 0; total excess)
    fn ref_min_excess(word: u64, n: u32) -> (i64, i64) {
        let mut e = 0i64;
        let mut m = 0i64;
        let mut i = 0;
        while i < n {
            if (word >> i) & 1 == 1 { e += 1; } else { e -= 1; if e < m { m = e; } }
            i += 1;
        }
        (m, e)
    }
    /// scanning bits n-1 down to 0: (max running excess, capped below at 0; total)
    fn ref_max_excess_rev(word: u64, n: u32) -> (i64, i64) {
        let mut e = 0i64;
        let mut m = 0i64;
        let mut i = n;
        while i > 0 {
            i -= 1;
            if (word >> i) & 1 == 1 { e += 1; if e > m { m = e; } } else { e -= 1; }
        }
        (m, e)
    }

    //@ kind=P props=C02,C04 fn=find_unmatched_close_in_word : == position of the first close whose running excess drops below 0 (64 if none), all x:u64
    #[kani::proof]
    #[kani::unwind(65)]
    pub fn c02_find_unmatched_close_in_word() {
        let x: u64 = kani::any();
        assert!(find_unmatched_close_in_word(x) == ref_scan_to(x, 0, 64, 0, -1));
    }

    //@ kind=P props=C02,C04 fn=find_close_in_word : all words, all p:u32: None for p>=64; Some(p) if bit p is a close; else the first q>p in the word with excess(p..=q)==0, None if the match is not in this word
    #[kani::proof]
    #[kani::unwind(65)]
    pub fn c02_find_close_in_word() {
        let x: u64 = kani::any();
        let p: u32 = kani::any();
        let r = find_close_in_word(x, p);
        if p >= 64 {
            assert!(r.is_none());
        } else if (x >> p) & 1 == 0 {
            assert!(r == Some(p));
        } else {
            let q = ref_scan_to(x, p + 1, 64, 1, 0);
            if q < 64 { assert!(r == Some(q)); } else { assert!(r.is_none()); }
        }
    }

    //@ kind=P props=C02,C04 fn=BYTE_MIN_EXCESS,BYTE_TOTAL_EXCESS,BYTE_MAX_EXCESS_REV : every one of the 256 rows equals its defining scan
    #[kani::proof]
    #[kani::unwind(9)]
    pub fn c02_bp_byte_tables() {
        let b: u8 = kani::any();
        let (m, t) = ref_min_excess(b as u64, 8);
        assert!(BYTE_MIN_EXCESS[b as usize] as i64 == m);
        assert!(BYTE_TOTAL_EXCESS[b as usize] as i64 == t);
        let (mx, t2) = ref_max_excess_rev(b as u64, 8);
        assert!(BYTE_MAX_EXCESS_REV[b as usize] as i64 == mx);
        assert!(t2 == t);
    }

    //@ kind=P props=C02,C04 fn=BYTE_FIND_CLOSE : all 256 bytes x 16 initial excesses: entry == first bit where excess (starting at init 1..=16) reaches 0, 8 if none
    #[kani::proof]
    #[kani::unwind(9)]
    pub fn c02_bp_byte_find_close_table() {
        let b: u8 = kani::any();
        let i: usize = kani::any();
        kani::assume(i < 16);
        assert!(BYTE_FIND_CLOSE[b as usize][i] as u32 == ref_scan_to(b as u64, 0, 8, (i + 1) as i64, 0));
    }

    //@ kind=P props=C02,C04 fn=word_min_excess_unrolled : all words: (min prefix excess, total excess) of the 64-bit scan
    #[kani::proof]
    #[kani::unwind(65)]
    pub fn c02_word_min_excess_unrolled() {
        let x: u64 = kani::any();
        let (m, t) = word_min_excess_unrolled(x);
        let (rm, rt) = ref_min_excess(x, 64);
        assert!(m as i64 == rm && t as i64 == rt);
    }

    //@ kind=P props=C02,C04 fn=word_min_excess : all words, all valid_bits<=64: (min prefix excess, total) over the first valid_bits bits; bits past valid_bits never matter
    #[kani::proof]
    #[kani::unwind(65)]
    pub fn c02_word_min_excess_partial() {
        let x: u64 = kani::any();
        let n: usize = kani::any();
        kani::assume(n <= 64);
        let (rm, rt) = ref_min_excess(x, n as u32);
        let (m, t) = word_min_excess(x, n);
        assert!(m as i64 == rm && t as i64 == rt);
    }

    //@ kind=P props=C02,C04 fn=word_min_excess_i32 : all words, all valid_bits<=64: (min prefix excess, total) over the first valid_bits bits
    #[kani::proof]
    #[kani::unwind(65)]
    pub fn c02_word_min_excess_i32_partial() {
        let x: u64 = kani::any();
        let n: usize = kani::any();
        kani::assume(n <= 64);
        let (rm, rt) = ref_min_excess(x, n as u32);
        let (m2, t2) = word_min_excess_i32(x, n);
        assert!(m2 as i64 == rm && t2 as i64 == rt);
    }

    //@ kind=P props=C02,C04 fn=word_max_excess_rev : all words: (max running excess scanning bit 63 down to 0, total)
    #[kani::proof]
    #[kani::unwind(65)]
    pub fn c02_word_max_excess_rev() {
        let x: u64 = kani::any();
        let (m, t) = word_max_excess_rev(x);
        let (rm, rt) = ref_max_excess_rev(x, 64);
        assert!(m as i64 == rm && t as i64 == rt);
    }
}
