// ---- appended by /verif (cfg(kani) only): the vectorised JSON escape scanner (C09)
#[cfg(kani)]
#[allow(unused, unsafe_code)]
mod __verif_kani {
    use super::*;

    fn pred(b: u8) -> bool { b == b'"' || b == b'\\' || b < 0x20 }

    //@ kind=P props=C09 fn=json_avx2_mask,json_sse2_mask stubs=_mm256_subs_epu8,_mm_subs_epu8 : for all 32-/16-byte chunks and every lane i: mask lane i is all-ones iff byte i is '"', '\\' or < 0x20 (unsigned)
    #[kani::proof]
    #[kani::unwind(34)]
    #[kani::stub(core::arch::x86_64::_mm256_subs_epu8, crate::__verif_models::model_mm256_subs_epu8)]
    #[kani::stub(core::arch::x86_64::_mm_subs_epu8, crate::__verif_models::model_mm_subs_epu8)]
    pub fn c09_escape_masks_lanes() {
        let b: [u8; 32] = kani::any();
        let i: usize = kani::any();
        kani::assume(i < 32);
        let m = unsafe { _mm256_movemask_epi8(json_avx2_mask(_mm256_loadu_si256(b.as_ptr().cast()))) } as u32;
        assert!(((m >> i) & 1 == 1) == pred(b[i]));
        let m16 = unsafe { _mm_movemask_epi8(json_sse2_mask(_mm_loadu_si128(b.as_ptr().cast()))) } as u32;
        if i < 16 { assert!(((m16 >> i) & 1 == 1) == pred(b[i])); }
        assert!(m16 >> 16 == 0);
    }

    fn first_from(b: &[u8], start: usize) -> usize {
        let mut i = start;
        while i < b.len() { if pred(b[i]) { return i; } i += 1; }
        b.len()
    }

    macro_rules! scan_case {
        ($name:ident, $len:expr, $start:expr) => {
            #[kani::proof]
            #[kani::unwind(60)]
            #[kani::stub(core::arch::x86_64::_mm256_subs_epu8, crate::__verif_models::model_mm256_subs_epu8)]
            #[kani::stub(core::arch::x86_64::_mm_subs_epu8, crate::__verif_models::model_mm_subs_epu8)]
            pub fn $name() {
                let b: [u8; $len] = kani::any();
                let want = first_from(&b, $start);
                assert!(json_escape::scalar(&b, $start) == want);
                assert!(json_escape::dispatch(&b, $start, true) == want);
                assert!(json_escape::dispatch(&b, $start, false) == want);
            }
        };
    }
    //@ kind=B props=C09 bound=buffer_len=53(32+16+5),start=0 fn=json_escape::{scalar,avx2,sse2,dispatch} stubs=_mm256_subs_epu8,_mm_subs_epu8 : every 53-byte buffer: each engine returns the first index >= 0 holding '"', '\\' or a byte < 0x20, else the length (one AVX2 iteration, one SSE2 step, scalar tail)
    scan_case!(c09_escape_scan_len53_from0, 53, 0);
    //@ kind=B props=C09 tier=thorough bound=buffer_len=53,start=3 fn=json_escape::{scalar,avx2,sse2,dispatch} stubs=_mm256_subs_epu8,_mm_subs_epu8 : every 53-byte buffer scanned from offset 3 (unaligned start; matches before the start must be ignored)
    scan_case!(c09_escape_scan_len53_from3, 53, 3);
    //@ kind=B props=C09 bound=buffer_len=9,start_in_{9,12} fn=json_escape::{scalar,avx2,sse2,dispatch} stubs=_mm256_subs_epu8,_mm_subs_epu8 : start at or past the end returns the length
    scan_case!(c09_escape_scan_past_end, 9, 9);
}
