// ---- appended by /verif (cfg(kani) only): trusted scalar models of x86 intrinsics Kani cannot execute.
// Each model is a lane loop transcribed from the Intel SDM pseudo-code; each is a TRUSTED assumption.
#[cfg(kani)]
#[allow(dead_code, unused, unsafe_code)]
pub(crate) mod __verif_models {
    use core::arch::x86_64::*;

    /// PDEP r64, r64, r/m64 (SDM vol. 2B)
    pub unsafe fn model_pdep_u64(a: u64, mask: u64) -> u64 {
        let mut dest = 0u64;
        let mut k = 0u32;
        let mut m = 0u32;
        while m < 64 {
            if (mask >> m) & 1 == 1 {
                if (a >> k) & 1 == 1 {
                    dest |= 1u64 << m;
                }
                k += 1;
            }
            m += 1;
        }
        dest
    }

    /// VPSHUFB ymm (per 128-bit lane byte shuffle, high bit of selector zeroes)
    pub unsafe fn model_mm256_shuffle_epi8(a: __m256i, b: __m256i) -> __m256i {
        let x: [u8; 32] = core::mem::transmute(a);
        let s: [u8; 32] = core::mem::transmute(b);
        let mut o = [0u8; 32];
        let mut i = 0;
        while i < 32 {
            let lane = i & 16;
            o[i] = if s[i] & 0x80 != 0 { 0 } else { x[lane + (s[i] & 0x0F) as usize] };
            i += 1;
        }
        core::mem::transmute(o)
    }

    /// PSHUFB xmm
    pub unsafe fn model_mm_shuffle_epi8(a: __m128i, b: __m128i) -> __m128i {
        let x: [u8; 16] = core::mem::transmute(a);
        let s: [u8; 16] = core::mem::transmute(b);
        let mut o = [0u8; 16];
        let mut i = 0;
        while i < 16 {
            o[i] = if s[i] & 0x80 != 0 { 0 } else { x[(s[i] & 0x0F) as usize] };
            i += 1;
        }
        core::mem::transmute(o)
    }

    /// VPSADBW ymm: per 64-bit lane sum of absolute byte differences
    pub unsafe fn model_mm256_sad_epu8(a: __m256i, b: __m256i) -> __m256i {
        let x: [u8; 32] = core::mem::transmute(a);
        let y: [u8; 32] = core::mem::transmute(b);
        let mut o = [0u64; 4];
        let mut l = 0;
        while l < 4 {
            let mut s = 0u64;
            let mut j = 0;
            while j < 8 {
                let p = x[l * 8 + j];
                let q = y[l * 8 + j];
                s += (if p > q { p - q } else { q - p }) as u64;
                j += 1;
            }
            o[l] = s;
            l += 1;
        }
        core::mem::transmute(o)
    }

    pub unsafe fn model_mm256_min_epu8(a: __m256i, b: __m256i) -> __m256i {
        let x: [u8; 32] = core::mem::transmute(a);
        let y: [u8; 32] = core::mem::transmute(b);
        let mut o = [0u8; 32];
        let mut i = 0;
        while i < 32 { o[i] = if x[i] < y[i] { x[i] } else { y[i] }; i += 1; }
        core::mem::transmute(o)
    }
    pub unsafe fn model_mm256_max_epu8(a: __m256i, b: __m256i) -> __m256i {
        let x: [u8; 32] = core::mem::transmute(a);
        let y: [u8; 32] = core::mem::transmute(b);
        let mut o = [0u8; 32];
        let mut i = 0;
        while i < 32 { o[i] = if x[i] > y[i] { x[i] } else { y[i] }; i += 1; }
        core::mem::transmute(o)
    }
    pub unsafe fn model_mm_min_epu8(a: __m128i, b: __m128i) -> __m128i {
        let x: [u8; 16] = core::mem::transmute(a);
        let y: [u8; 16] = core::mem::transmute(b);
        let mut o = [0u8; 16];
        let mut i = 0;
        while i < 16 { o[i] = if x[i] < y[i] { x[i] } else { y[i] }; i += 1; }
        core::mem::transmute(o)
    }
    pub unsafe fn model_mm_max_epu8(a: __m128i, b: __m128i) -> __m128i {
        let x: [u8; 16] = core::mem::transmute(a);
        let y: [u8; 16] = core::mem::transmute(b);
        let mut o = [0u8; 16];
        let mut i = 0;
        while i < 16 { o[i] = if x[i] > y[i] { x[i] } else { y[i] }; i += 1; }
        core::mem::transmute(o)
    }
    pub unsafe fn model_mm256_subs_epu8(a: __m256i, b: __m256i) -> __m256i {
        let x: [u8; 32] = core::mem::transmute(a);
        let y: [u8; 32] = core::mem::transmute(b);
        let mut o = [0u8; 32];
        let mut i = 0;
        while i < 32 { o[i] = x[i].saturating_sub(y[i]); i += 1; }
        core::mem::transmute(o)
    }
    pub unsafe fn model_mm_subs_epu8(a: __m128i, b: __m128i) -> __m128i {
        let x: [u8; 16] = core::mem::transmute(a);
        let y: [u8; 16] = core::mem::transmute(b);
        let mut o = [0u8; 16];
        let mut i = 0;
        while i < 16 { o[i] = x[i].saturating_sub(y[i]); i += 1; }
        core::mem::transmute(o)
    }
    pub unsafe fn model_mm256_sub_epi8(a: __m256i, b: __m256i) -> __m256i {
        let x: [u8; 32] = core::mem::transmute(a);
        let y: [u8; 32] = core::mem::transmute(b);
        let mut o = [0u8; 32];
        let mut i = 0;
        while i < 32 { o[i] = x[i].wrapping_sub(y[i]); i += 1; }
        core::mem::transmute(o)
    }
    pub unsafe fn model_mm_sub_epi8(a: __m128i, b: __m128i) -> __m128i {
        let x: [u8; 16] = core::mem::transmute(a);
        let y: [u8; 16] = core::mem::transmute(b);
        let mut o = [0u8; 16];
        let mut i = 0;
        while i < 16 { o[i] = x[i].wrapping_sub(y[i]); i += 1; }
        core::mem::transmute(o)
    }
    pub unsafe fn model_mm256_add_epi8(a: __m256i, b: __m256i) -> __m256i {
        let x: [u8; 32] = core::mem::transmute(a);
        let y: [u8; 32] = core::mem::transmute(b);
        let mut o = [0u8; 32];
        let mut i = 0;
        while i < 32 { o[i] = x[i].wrapping_add(y[i]); i += 1; }
        core::mem::transmute(o)
    }
    /// VPTESTZ: ZF = ((a AND b) == 0)
    pub unsafe fn model_mm256_testz_si256(a: __m256i, b: __m256i) -> i32 {
        let x: [u64; 4] = core::mem::transmute(a);
        let y: [u64; 4] = core::mem::transmute(b);
        (((x[0] & y[0]) | (x[1] & y[1]) | (x[2] & y[2]) | (x[3] & y[3])) == 0) as i32
    }
    /// PHMINPOSUW: min u16 in bits 15:0, its (lowest) index in 18:16, rest zero
    pub unsafe fn model_mm_minpos_epu16(a: __m128i) -> __m128i {
        let x: [u16; 8] = core::mem::transmute(a);
        let mut mi = 0usize;
        let mut i = 1;
        while i < 8 { if x[i] < x[mi] { mi = i; } i += 1; }
        let o: [u16; 8] = [x[mi], mi as u16, 0, 0, 0, 0, 0, 0];
        core::mem::transmute(o)
    }
    /// PMOVSXBW: sign-extend low 8 bytes to 8 i16
    pub unsafe fn model_mm_cvtepi8_epi16(a: __m128i) -> __m128i {
        let x: [i8; 16] = core::mem::transmute(a);
        let mut o = [0i16; 8];
        let mut i = 0;
        while i < 8 { o[i] = x[i] as i16; i += 1; }
        core::mem::transmute(o)
    }

    // ---- reference definitions shared by harnesses ("count bits one at a time")
    pub fn ref_popcount(x: u64) -> u32 {
        let mut c = 0u32;
        let mut i = 0;
        while i < 64 { if (x >> i) & 1 == 1 { c += 1; } i += 1; }
        c
    }
    /// position of the k-th (0-based) set bit, or 64
    pub fn ref_select_in_word(x: u64, k: u32) -> u32 {
        let mut c = 0u32;
        let mut i = 0u32;
        while i < 64 {
            if (x >> i) & 1 == 1 {
                if c == k { return i; }
                c += 1;
            }
            i += 1;
        }
        64
    }
}
