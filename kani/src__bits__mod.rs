// ---- appended by /verif (cfg(kani) only): re-export of a harness helper living in the private elias_fano module
#[cfg(kani)]
#[allow(unused)]
pub(crate) use elias_fano::__verif_kani::small_valid_ef as __verif_small_valid_ef;
