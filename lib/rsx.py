"""rsx: a small Rust-source extractor (tokeniser + brace matcher; no regex on bodies).

It copies named items (fn / const / static / struct / impl methods) out of the real source text and applies a
fixed list of documented, mechanical drop/rewrite rules (DESIGN.md section 2.1) so the text can be placed inside a
`verus! { }` block. Anything it does not understand raises ExtractError (-> exit 2, never an alarm).
"""
import re


class ExtractError(Exception):
    pass


# --------------------------------------------------------------------------- tokeniser

class Tok:
    __slots__ = ("kind", "text", "pos", "end")

    def __init__(self, kind, text, pos):
        self.kind, self.text, self.pos, self.end = kind, text, pos, pos + len(text)

    def __repr__(self):
        return f"{self.kind}:{self.text!r}@{self.pos}"


_IDENT = re.compile(r"[A-Za-z_][A-Za-z0-9_]*")
_NUM = re.compile(r"[0-9][0-9A-Za-z_]*(?:\.[0-9][0-9A-Za-z_]*)?")
_PUNCT3 = ("<<=", ">>=", "...", "..=")
_PUNCT2 = ("->", "=>", "::", "==", "!=", "<=", ">=", "&&", "||", "+=", "-=", "*=", "/=", "%=", "^=", "&=", "|=",
           "<<", ">>", "..")


def tokenize(src):
    """Yield tokens; kinds: ws, lcomment, bcomment, doc, str, char, lifetime, ident, num, punct."""
    toks = []
    i, n = 0, len(src)
    while i < n:
        c = src[i]
        if c.isspace():
            j = i
            while j < n and src[j].isspace():
                j += 1
            toks.append(Tok("ws", src[i:j], i))
            i = j
        elif src.startswith("//", i):
            j = src.find("\n", i)
            j = n if j < 0 else j
            text = src[i:j]
            kind = "doc" if (text.startswith("///") and not text.startswith("////")) or text.startswith("//!") else "lcomment"
            toks.append(Tok(kind, text, i))
            i = j
        elif src.startswith("/*", i):
            depth, j = 1, i + 2
            while j < n and depth:
                if src.startswith("/*", j):
                    depth += 1
                    j += 2
                elif src.startswith("*/", j):
                    depth -= 1
                    j += 2
                else:
                    j += 1
            toks.append(Tok("bcomment", src[i:j], i))
            i = j
        elif c == '"' or (c in "br" and _is_str_start(src, i)):
            j = _scan_string(src, i)
            toks.append(Tok("str", src[i:j], i))
            i = j
        elif c == "'" or (c == "b" and src.startswith("b'", i)):
            k = i + (1 if c == "b" else 0)
            # char literal or lifetime
            m = re.match(r"'(\\x[0-9a-fA-F]{2}|\\u\{[0-9a-fA-F_]+\}|\\.|[^'\\])'", src[k:k + 16])
            if m:
                j = k + m.end()
                toks.append(Tok("char", src[i:j], i))
                i = j
            else:
                m = _IDENT.match(src, k + 1)
                j = m.end() if m else k + 1
                toks.append(Tok("lifetime", src[i:j], i))
                i = j
        elif c.isalpha() or c == "_":
            m = _IDENT.match(src, i)
            toks.append(Tok("ident", m.group(), i))
            i = m.end()
        elif c.isdigit():
            m = _NUM.match(src, i)
            text = m.group()
            # do not swallow `0..n` as a float
            if ".." in src[i:m.end() + 1] and "." in text:
                text = text.split(".")[0]
            toks.append(Tok("num", text, i))
            i += len(text)
        else:
            for p in _PUNCT3 + _PUNCT2:
                if src.startswith(p, i):
                    toks.append(Tok("punct", p, i))
                    i += len(p)
                    break
            else:
                toks.append(Tok("punct", c, i))
                i += 1
    return toks


def _is_str_start(src, i):
    m = re.match(r"(b?r#*\"|b\")", src[i:i + 12])
    return bool(m)


def _scan_string(src, i):
    m = re.match(r"b?r(#*)\"", src[i:i + 12])
    if m:
        close = '"' + m.group(1)
        j = src.find(close, i + m.end())
        if j < 0:
            raise ExtractError("unterminated raw string")
        return j + len(close)
    j = i + (2 if src[i] == "b" else 1)
    while j < len(src):
        if src[j] == "\\":
            j += 2
        elif src[j] == '"':
            return j + 1
        else:
            j += 1
    raise ExtractError("unterminated string")


OPEN = {"(": ")", "[": "]", "{": "}"}
CLOSE = {")", "]", "}"}


def code_toks(toks):
    return [t for t in toks if t.kind not in ("ws", "lcomment", "bcomment", "doc")]


def match_close(ct, i):
    """ct: code tokens; i index of an opening bracket; returns index of the matching close."""
    depth = 0
    for j in range(i, len(ct)):
        t = ct[j]
        if t.kind == "punct":
            if t.text in OPEN:
                depth += 1
            elif t.text in CLOSE:
                depth -= 1
                if depth == 0:
                    return j
    raise ExtractError("unbalanced brackets")


# --------------------------------------------------------------------------- cfg evaluation (rule D3)

def eval_cfg(pred_toks, cfg):
    """pred_toks: code tokens of the predicate inside cfg(...). cfg: dict with 'features' (set), 'target_arch', 'test'."""
    pos = [0]

    def peek():
        return pred_toks[pos[0]] if pos[0] < len(pred_toks) else None

    def eat(text=None):
        t = peek()
        if t is None or (text is not None and t.text != text):
            raise ExtractError(f"cfg parse error near {t}")
        pos[0] += 1
        return t

    def parse():
        t = eat()
        if t.kind != "ident":
            raise ExtractError(f"cfg: unexpected {t}")
        name = t.text
        nt = peek()
        if nt is not None and nt.text == "(":
            eat("(")
            args = []
            while peek() is not None and peek().text != ")":
                args.append(parse())
                if peek() is not None and peek().text == ",":
                    eat(",")
            eat(")")
            if name == "all":
                return all(args)
            if name == "any":
                return any(args)
            if name == "not":
                if len(args) != 1:
                    raise ExtractError("cfg not() arity")
                return not args[0]
            raise ExtractError(f"cfg: unknown combinator {name}")
        if nt is not None and nt.text == "=":
            eat("=")
            v = eat()
            val = v.text.strip('"')
            if name == "feature":
                return val in cfg["features"]
            if name == "target_arch":
                return val == cfg["target_arch"]
            if name in ("target_os", "target_pointer_width", "target_endian", "target_feature"):
                return val == cfg.get(name)
            raise ExtractError(f"cfg: unknown key {name}")
        if name == "test":
            return bool(cfg.get("test", False))
        if name in ("debug_assertions",):
            return bool(cfg.get(name, False))
        if name in ("kani", "verus_keep_ghost", "docsrs"):
            return False
        raise ExtractError(f"cfg: unknown flag {name}")

    r = parse()
    if pos[0] != len(pred_toks):
        raise ExtractError("cfg: trailing tokens")
    return r


# --------------------------------------------------------------------------- item location

class Source:
    def __init__(self, path, text):
        self.path = path
        self.text = text
        self.toks = tokenize(text)
        self.ct = code_toks(self.toks)

    def find_in_macro(self, kind, name, macro):
        """Items written inside the body of `macro_rules! <macro> { .. }` (any nesting depth)."""
        ct = self.ct
        for i in range(len(ct) - 3):
            if ct[i].text == "macro_rules" and ct[i + 1].text == "!" and ct[i + 2].text == macro and ct[i + 3].text == "{":
                k = match_close(ct, i + 3)
                cands = [j for j in range(i + 4, k) if ct[j].kind == "ident" and ct[j].text == kind
                         and ct[j + 1].kind == "ident" and ct[j + 1].text == name]
                if not cands:
                    raise ExtractError(f"{self.path}: {kind} {name} not found in macro `{macro}`")
                return [self._item_extent(c) for c in cands]
        raise ExtractError(f"{self.path}: macro_rules! {macro} not found")

    def find_item(self, kind, name, impl=None):
        """Return (start_pos, end_pos) in text of the item including leading attributes and doc comments.
        kind: fn | const | static | struct | enum | trait | type. impl: header substring, e.g. 'impl BitVec' or
        'impl RankSelect for BitVec' (matched on whitespace-normalised code tokens up to '{')."""
        ct = self.ct
        lo, hi = 0, len(ct)
        if impl:
            rng = self._find_impl(impl)
            if rng is None:
                raise ExtractError(f"{self.path}: impl block `{impl}` not found")
            lo, hi = rng
        depth = 0
        cands = []
        i = lo
        base_depth = 0
        while i < hi:
            t = ct[i]
            if t.kind == "punct" and t.text in OPEN:
                depth += 1
            elif t.kind == "punct" and t.text in CLOSE:
                depth -= 1
            elif depth == base_depth and t.kind == "ident" and t.text == kind and i + 1 < hi \
                    and ct[i + 1].kind == "ident" and ct[i + 1].text == name:
                cands.append(i)
            i += 1
        if not cands:
            raise ExtractError(f"{self.path}: {kind} {name} not found" + (f" in `{impl}`" if impl else ""))
        return [self._item_extent(c) for c in cands]

    def _find_impl(self, header):
        want = [t.text for t in code_toks(tokenize(header))]
        ct = self.ct
        depth = 0
        for i, t in enumerate(ct):
            if t.kind == "punct" and t.text in OPEN:
                depth += 1
            elif t.kind == "punct" and t.text in CLOSE:
                depth -= 1
            elif depth == 0 and t.kind == "ident" and t.text == "impl":
                j = i
                while j < len(ct) and not (ct[j].kind == "punct" and ct[j].text == "{"):
                    j += 1
                head = [t.text for t in ct[i:j]]
                if head == want:
                    k = match_close(ct, j)
                    return (j + 1, k)
        return None

    def _item_extent(self, ci):
        """From code-token index of the keyword (fn/const/...) find the start (incl. attrs, visibility, qualifiers) and
        end (matching brace or semicolon)."""
        ct = self.ct
        # walk backwards over qualifiers / visibility / attributes
        s = ci
        while s > 0:
            p = ct[s - 1]
            if p.kind == "ident" and p.text in ("pub", "unsafe", "const", "async", "extern", "default"):
                s -= 1
            elif p.kind == "punct" and p.text == ")" and s >= 2:
                # pub(crate)
                o = s - 1
                depth = 0
                while o >= 0:
                    if ct[o].text == ")":
                        depth += 1
                    elif ct[o].text == "(":
                        depth -= 1
                        if depth == 0:
                            break
                    o -= 1
                if o >= 1 and ct[o - 1].kind == "ident" and ct[o - 1].text == "pub":
                    s = o - 1
                else:
                    break
            elif p.kind == "punct" and p.text == "]":
                # attribute #[...]
                o = s - 1
                depth = 0
                while o >= 0:
                    if ct[o].text == "]":
                        depth += 1
                    elif ct[o].text == "[":
                        depth -= 1
                        if depth == 0:
                            break
                    o -= 1
                if o >= 1 and ct[o - 1].text == "#":
                    s = o - 1
                else:
                    break
            elif p.kind == "str" and s >= 2 and ct[s - 2].text == "extern":
                s -= 1
            else:
                break
        # forward to end
        j = ci
        depth = 0
        while j < len(ct):
            t = ct[j]
            if t.kind == "punct":
                if t.text in ("(", "["):
                    depth += 1
                elif t.text in (")", "]"):
                    depth -= 1
                elif t.text == "{" and depth == 0:
                    e = match_close(ct, j)
                    return (ct[s].pos, ct[e].end)
                elif t.text == ";" and depth == 0:
                    return (ct[s].pos, ct[j].end)
            j += 1
        raise ExtractError("item end not found")


def _join(ts):
    return " ".join(t.text for t in ts).replace(" :: ", "::").replace(" < ", "<").replace(" >", ">").replace("< ", "<")


def _strip_generics(head):
    return re.sub(r"<[^<>]*>", "", head).replace("  ", " ").strip()


# --------------------------------------------------------------------------- text-level rules on one item

ATTR_DROP = ("inline", "allow", "derive", "must_use", "doc", "cold", "target_feature", "deprecated", "cfg_attr", "repr",
             "expect", "track_caller", "rustfmt")


class Item:
    """One extracted item; `text` is transformed step by step, `log` records every rule application."""

    def __init__(self, path, name, text):
        self.path, self.name, self.orig, self.text = path, name, text, text
        self.log = []

    # -- D1: docs/comments + inert attributes; D2/D3: cfg evaluation
    def strip_docs_and_attrs(self, cfg):
        toks = tokenize(self.text)
        out = []
        i = 0
        n = len(toks)
        dropped_attrs = []
        while i < n:
            t = toks[i]
            if t.kind in ("doc", "lcomment", "bcomment"):
                i += 1
                continue
            if t.kind == "punct" and t.text == "#":
                # attribute: # [ ... ]  (inner attributes #! not expected inside items)
                j = i + 1
                while j < n and toks[j].kind == "ws":
                    j += 1
                if j < n and toks[j].text == "[":
                    k = _match_tok(toks, j)
                    inner = [x for x in toks[j + 1:k] if x.kind not in ("ws", "lcomment", "bcomment", "doc")]
                    aname = inner[0].text if inner else ""
                    if aname == "cfg":
                        pred = inner[2:-1]
                        val = eval_cfg(pred, cfg)
                        src = "".join(x.text for x in toks[i:k + 1])
                        if val:
                            self.log.append({"rule": "D3", "what": f"{src} evaluated true: attribute removed"})
                            i = k + 1
                            continue
                        # remove the attribute AND the annotated item/statement/block
                        e = _annotated_extent(toks, k + 1)
                        removed = "".join(x.text for x in toks[i:e])
                        rule = "D2" if "select-stats" in src else "D3"
                        self.log.append({"rule": rule, "what": f"{src} evaluated false: removed `{_short(removed)}`"})
                        i = e
                        continue
                    if aname == "derive":
                        # Copy/Clone have type-system meaning (moves); keep exactly those, drop the rest
                        names = [x.text for x in inner[2:-1] if x.kind == "ident"]
                        keep = [n for n in ("Clone", "Copy", "PartialEq", "Eq") if n in names]
                        dropped_attrs.append("".join(x.text for x in toks[i:k + 1]) + (" (kept: " + ",".join(keep) + ")" if keep else ""))
                        if "Copy" in keep and "PartialEq" in keep and "Eq" in keep:
                            out.append("#[derive(Clone, Copy, PartialEq, Eq, Structural)]")
                        elif "Copy" in keep:
                            out.append("#[derive(Clone, Copy)]")
                        i = k + 1
                        continue
                    if aname in ATTR_DROP:
                        dropped_attrs.append("".join(x.text for x in toks[i:k + 1]))
                        i = k + 1
                        continue
                    raise ExtractError(f"{self.path}::{self.name}: unsupported attribute #[{aname}..]")
            out.append(t.text)
            i += 1
        if dropped_attrs:
            self.log.append({"rule": "D1", "what": "dropped attributes: " + " ".join(sorted(set(dropped_attrs)))})
        self.log.append({"rule": "D1", "what": "dropped comments and doc comments"})
        self.text = "".join(out)

    # -- D4 / R3 : debug_assert* removed, assert! message arguments dropped
    def drop_debug_asserts_and_messages(self):
        toks = tokenize(self.text)
        out = []
        i, n = 0, len(toks)
        while i < n:
            t = toks[i]
            if t.kind == "ident" and t.text in ("debug_assert", "debug_assert_eq", "debug_assert_ne") \
                    and _next_code(toks, i + 1)[0].text == "!":
                b = _next_code(toks, _next_code(toks, i + 1)[1] + 1)[1]
                k = _match_tok(toks, b)
                e = k + 1
                nt, ni = _next_code(toks, e)
                if nt is not None and nt.text == ";":
                    e = ni + 1
                self.log.append({"rule": "D4", "what": "removed `" + _short("".join(x.text for x in toks[i:e])) + "`"})
                i = e
                continue
            if t.kind == "ident" and t.text in ("assert", "assert_eq", "assert_ne") and _next_code(toks, i + 1)[0].text == "!":
                b = _next_code(toks, _next_code(toks, i + 1)[1] + 1)[1]
                k = _match_tok(toks, b)
                args = _split_top(toks[b + 1:k])
                keep = 1 if t.text == "assert" else 2
                if len(args) > keep:
                    self.log.append({"rule": "R3", "what": "dropped panic message arguments of `" + t.text + "!`"})
                kept = ", ".join("".join(x.text for x in a).strip() for a in args[:keep])
                if t.text == "assert":
                    out.append(f"assert!({kept})")
                elif t.text == "assert_eq":
                    a0 = "".join(x.text for x in args[0]).strip()
                    a1 = "".join(x.text for x in args[1]).strip()
                    out.append(f"assert!(({a0}) == ({a1}))")
                    self.log.append({"rule": "R3", "what": "assert_eq!(a, b) -> assert!((a) == (b))"})
                else:
                    a0 = "".join(x.text for x in args[0]).strip()
                    a1 = "".join(x.text for x in args[1]).strip()
                    out.append(f"assert!(({a0}) != ({a1}))")
                i = k + 1
                continue
            out.append(t.text)
            i += 1
        self.text = "".join(out)

    # -- R1: for-loops over slices with reference patterns -> index loops (increment first, so `continue` is safe)
    def desugar_ref_for_loops(self):
        count = 0
        while True:
            toks = tokenize(self.text)
            ct_idx = [i for i, t in enumerate(toks) if t.kind not in ("ws",)]
            found = None
            for pos_i, i in enumerate(ct_idx):
                t = toks[i]
                if t.kind == "ident" and t.text == "for":
                    # collect pattern tokens up to `in` at depth 0
                    j = pos_i + 1
                    depth = 0
                    pat = []
                    while j < len(ct_idx):
                        x = toks[ct_idx[j]]
                        if x.kind == "punct" and x.text in OPEN:
                            depth += 1
                        elif x.kind == "punct" and x.text in CLOSE:
                            depth -= 1
                        elif depth == 0 and x.kind == "ident" and x.text == "in":
                            break
                        pat.append(x)
                        j += 1
                    if j >= len(ct_idx):
                        continue
                    if not any(p.text == "&" for p in pat):
                        continue
                    # expression up to `{` at depth 0
                    k = j + 1
                    depth = 0
                    expr = []
                    while k < len(ct_idx):
                        x = toks[ct_idx[k]]
                        if x.kind == "punct" and x.text == "{" and depth == 0:
                            break
                        if x.kind == "punct" and x.text in ("(", "["):
                            depth += 1
                        elif x.kind == "punct" and x.text in (")", "]"):
                            depth -= 1
                        expr.append(x)
                        k += 1
                    found = (i, pat, expr, ct_idx[k])
                    break
            if not found:
                break
            i, pat, expr, brace = found
            pat_s = "".join(p.text for p in pat)
            expr_s = _join_src(expr)
            count += 1
            ctr = f"__i{count}"
            m_enum = re.fullmatch(r"\((\w+),&(\w+)\)", pat_s)
            m_ref = re.fullmatch(r"&(\w+)", pat_s)
            m_skip = re.fullmatch(r"(.+)\.iter\(\)\.enumerate\(\)\.skip\((.+)\)", expr_s)
            if m_enum and m_skip:
                # `for (i, &x) in E.iter().enumerate().skip(N)`: indices N.. of E
                base, skip = m_skip.group(1), m_skip.group(2)
                head = f"let mut {ctr}: usize = {skip};\n while {ctr} < {base}.len()"
                first = f" let {m_enum.group(1)} = {ctr}; let {m_enum.group(2)} = {base}[{ctr}]; {ctr} += 1;"
            elif m_enum and expr_s.endswith(".iter().enumerate()"):
                base = expr_s[: -len(".iter().enumerate()")]
                head = f"let mut {ctr}: usize = 0;\n while {ctr} < {base}.len()"
                first = f" let {m_enum.group(1)} = {ctr}; let {m_enum.group(2)} = {base}[{ctr}]; {ctr} += 1;"
            elif m_ref and re.fullmatch(r"(.+)\.iter\(\)\.take\((.+)\)", expr_s):
                # `for &x in E.iter().take(N)`: the first min(N, E.len()) elements
                mt = re.fullmatch(r"(.+)\.iter\(\)\.take\((.+)\)", expr_s)
                base, lim = mt.group(1), mt.group(2)
                head = f"let mut {ctr}: usize = 0;\n while {ctr} < {base}.len() && {ctr} < {lim}"
                first = f" let {m_ref.group(1)} = {base}[{ctr}]; {ctr} += 1;"
            elif m_ref:
                base = expr_s
                if base.endswith(".iter()"):
                    base = base[: -len(".iter()")]
                if base.startswith("&") and not base.startswith("&mut"):
                    base = base[1:]
                if not re.fullmatch(r"[\w\.]+|\w+\[[^\]]*\]", base):
                    base = f"({base})"
                head = f"let mut {ctr}: usize = 0;\n while {ctr} < {base}.len()"
                first = f" let {m_ref.group(1)} = {base}[{ctr}]; {ctr} += 1;"
            else:
                raise ExtractError(f"{self.path}::{self.name}: unsupported for-pattern `{pat_s}` in `{expr_s}` (R1)")
            before = "".join(x.text for x in toks[i:brace + 1])
            # a loop label (`'outer: for ..`) must stay attached to the loop, not to the counter declaration
            start = i
            pj = i - 1
            while pj >= 0 and toks[pj].kind == "ws":
                pj -= 1
            if pj >= 1 and toks[pj].kind == "punct" and toks[pj].text == ":":
                pk = pj - 1
                while pk >= 0 and toks[pk].kind == "ws":
                    pk -= 1
                if pk >= 0 and toks[pk].kind == "lifetime":
                    label = toks[pk].text
                    head = head.replace("\n while ", f"\n {label}: while ", 1)
                    start = pk
            new = "".join(x.text for x in toks[:start]) + head + " {" + first + "".join(x.text for x in toks[brace + 1:])
            self.log.append({"rule": "R1", "what": f"`{_short(before)}` -> `{head} {{{first}` (counter {ctr}; "
                                                    f"increment placed before the body so `continue` keeps its meaning)"})
            self.text = new

    def desugar_rev_range_loops(self):
        """R1'': `for x in (A..B).rev() {` / `(A..=B).rev()` -> a counting-down while loop (Verus has no reversed ranges).
        The counter `__r<k>` runs from B (or B + 1) down to A; `x` is bound to the decremented counter first thing in the
        body. Only loops without `continue` in their own body are rewritten (the decrement is at the top, so `continue`
        would keep its meaning anyway)."""
        count = 0
        pat = re.compile(r"for\s+(\w+)\s+in\s+\(\s*([^()]+?)\s*\.\.(=?)\s*([^()]+?)\s*\)\s*\.rev\(\)\s*\{")
        while True:
            m = pat.search(self.text)
            if not m:
                break
            count += 1
            ctr = f"__r{count}"
            var, lo, incl, hi = m.group(1), m.group(2), m.group(3), m.group(4)
            start = f"{hi} + 1" if incl else hi
            new = f"let mut {ctr}: usize = {start};\n while {ctr} > {lo} {{ {ctr} -= 1; let {var} = {ctr};"
            self.log.append({"rule": "R1", "what": f"`{_short(m.group(0))}` -> `{_short(new)}` (reversed range spelled as a counting-down loop)"})
            self.text = self.text[:m.start()] + new + self.text[m.end():]

    def apply_rewrites(self, rewrites):
        """Sidecar-declared textual rewrites: `from` must occur exactly `count` (default 1) times, verbatim after
        whitespace normalisation of both; recorded in the evidence."""
        for rw in rewrites:
            if "regex" in rw:
                # generic token-shape rule: applies wherever the shape occurs (any number of times, also zero)
                new, n = re.subn(rw["regex"], rw["to"], self.text)
                if n:
                    self.log.append({"rule": rw.get("rule", "R*"), "what": f"{n} x /{rw['regex']}/ -> `{rw['to']}`"
                                     + (f" ({rw['why']})" if rw.get("why") else "")})
                self.text = new
                continue
            frm, to = rw["from"], rw["to"]
            cnt = rw.get("count", 1)
            pat = _anchor_re(frm)
            ms = list(pat.finditer(self.text))
            if len(ms) != cnt:
                raise ExtractError(f"{self.path}::{self.name}: rewrite anchor `{_short(frm)}` found {len(ms)} times, "
                                   f"expected {cnt}")
            self.text = pat.sub(lambda m: to, self.text)
            self.log.append({"rule": rw.get("rule", "R*"), "what": f"`{_short(frm)}` -> `{_short(to)}`"
                             + (f" ({rw['why']})" if rw.get("why") else "")})

    # -- contract splicing
    def splice_contract(self, ret=None, requires=None, ensures=None, decreases=None, loops=(), hints=(),
                        external_body=False, opens_invariants=None, header_attrs=(), returns=None):
        toks = tokenize(self.text)
        ct = [i for i, t in enumerate(toks) if t.kind != "ws"]
        # locate `fn`, then the body brace at depth 0
        fi = next(i for i in ct if toks[i].kind == "ident" and toks[i].text == "fn")
        depth = 0
        body = None
        arrow = None
        for i in ct:
            if i <= fi:
                continue
            t = toks[i]
            if t.kind == "punct" and t.text in ("(", "[", "<"):
                depth += 1 if t.text != "<" else 0
            elif t.kind == "punct" and t.text in (")", "]"):
                depth -= 1
            elif t.kind == "punct" and t.text == "->" and depth == 0 and arrow is None:
                arrow = i
            elif t.kind == "punct" and t.text == "{" and depth == 0:
                body = i
                break
        if body is None:
            raise ExtractError(f"{self.name}: no body")
        sig = "".join(x.text for x in toks[:body]).rstrip()
        if ret and arrow is not None:
            pre = "".join(x.text for x in toks[:arrow + 1])
            rty = "".join(x.text for x in toks[arrow + 1:body]).strip()
            where = ""
            m = re.search(r"\bwhere\b", rty)
            if m:
                where = " " + rty[m.start():]
                rty = rty[:m.start()].strip()
            sig = f"{pre} ({ret}: {rty}){where}"
        clauses = ""
        if requires:
            clauses += "\n    requires " + requires.strip().rstrip(",") + ","
        if ensures:
            clauses += "\n    ensures " + ensures.strip().rstrip(",") + ","
        if returns:
            clauses += "\n    returns " + returns.strip().rstrip(",") + ","
        if decreases:
            clauses += "\n    decreases " + decreases.strip().rstrip(",") + ","
        body_close = _match_tok(toks, body)
        body_toks = toks[body:body_close + 1]
        body_text = "".join(x.text for x in body_toks)
        # loops: find loop keywords in body in source order
        inserts = []
        if loops:
            inserts += _loop_inserts(self, body_text, loops)
        for h in hints:
            inserts.append(_hint_insert(self, body_text, h))
        for pos, ins in sorted(inserts, key=lambda x: x[0], reverse=True):
            body_text = body_text[:pos] + ins + body_text[pos:]
        attrs = "".join(a + "\n" for a in header_attrs)
        if external_body:
            attrs += "#[verifier::external_body]\n"
            body_text = "{ unimplemented!() }"
            self.log.append({"rule": "R4", "what": "body dropped: function is an external_body stub carrying only its "
                                                   "contract (proved for the real body by the Kani harness named in the unit)"})
        self.text = attrs + sig + clauses + "\n" + body_text


def _loop_inserts(item, body_text, loops):
    toks = tokenize(body_text)
    idxs = []
    for i, t in enumerate(toks):
        if t.kind == "ident" and t.text in ("while", "for", "loop"):
            idxs.append(i)
    if len(idxs) != len(loops):
        raise ExtractError(f"{item.path}::{item.name}: {len(idxs)} loops in the code, {len(loops)} in the contract sidecar")
    inserts = []
    for li, spec in zip(idxs, loops):
        kw = toks[li].text
        if spec.get("kind") and spec["kind"] != kw:
            raise ExtractError(f"{item.name}: loop kind changed: expected {spec['kind']}, found {kw}")
        # find body brace: first `{` at bracket depth 0 after keyword
        depth = 0
        j = li + 1
        while j < len(toks):
            x = toks[j]
            if x.kind == "punct" and x.text in ("(", "["):
                depth += 1
            elif x.kind == "punct" and x.text in (")", "]"):
                depth -= 1
            elif x.kind == "punct" and x.text == "{" and depth == 0:
                break
            j += 1
        clause = ""
        if spec.get("invariant_except_break"):
            clause += "\n        invariant_except_break " + spec["invariant_except_break"].strip().rstrip(",") + ","
        if spec.get("invariant"):
            clause += "\n        invariant " + spec["invariant"].strip().rstrip(",") + ","
        if spec.get("ensures"):
            clause += "\n        ensures " + spec["ensures"].strip().rstrip(",") + ","
        if spec.get("decreases"):
            clause += "\n        decreases " + spec["decreases"].strip().rstrip(",") + ","
        inserts.append((toks[j].pos, clause + "\n    "))
    return inserts


def _hint_insert(item, body_text, h):
    ghost0 = "\n proof { " + h["proof"].strip() + " }\n" if "proof" in h else "\n " + h["ghost"].strip() + "\n"
    if h.get("at") == "start":
        # body-independent placement: right after the opening brace of the function body
        return (body_text.index("{") + 1, ghost0)
    anchor = h.get("after") or h.get("before")
    pat = _anchor_re(anchor)
    ms = list(pat.finditer(body_text))
    nth = h.get("nth")
    if nth is None and len(ms) != 1:
        raise ExtractError(f"{item.path}::{item.name}: hint anchor `{_short(anchor)}` found {len(ms)} times")
    if nth is not None and nth >= len(ms):
        raise ExtractError(f"{item.path}::{item.name}: hint anchor `{_short(anchor)}` occurrence {nth} missing")
    m = ms[nth or 0]
    ghost = "\n proof { " + h["proof"].strip() + " }\n" if "proof" in h else "\n " + h["ghost"].strip() + "\n"
    if h.get("after"):
        return (m.end(), ghost)
    return (m.start(), ghost)


# --------------------------------------------------------------------------- small helpers

def _anchor_re(text):
    """whitespace-insensitive, token-exact pattern for an anchor / rewrite source text"""
    parts = []
    for t in tokenize(text):
        if t.kind == "ws":
            continue
        e = re.escape(t.text)
        if t.kind in ("ident", "num"):
            e = r"(?<![A-Za-z0-9_])" + e + r"(?![A-Za-z0-9_])"
        parts.append(e)
    return re.compile(r"\s*".join(parts))


def _ws_split(s):
    """split an anchor into tokens so that matching ignores whitespace differences"""
    return [t.text for t in tokenize(s) if t.kind != "ws"]


def _match_tok(toks, i):
    depth = 0
    for j in range(i, len(toks)):
        t = toks[j]
        if t.kind == "punct":
            if t.text in OPEN:
                depth += 1
            elif t.text in CLOSE:
                depth -= 1
                if depth == 0:
                    return j
    raise ExtractError("unbalanced")


def _next_code(toks, i):
    while i < len(toks) and toks[i].kind in ("ws", "lcomment", "bcomment", "doc"):
        i += 1
    return (toks[i], i) if i < len(toks) else (None, i)


def _annotated_extent(toks, i):
    """End index (exclusive) of the item/statement/block that an attribute at toks[..i) annotates."""
    t, j = _next_code(toks, i)
    if t is None:
        raise ExtractError("attribute at end")
    # further attributes on the same item
    while t.text == "#":
        b = _next_code(toks, j + 1)[1]
        k = _match_tok(toks, b)
        t, j = _next_code(toks, k + 1)
    if t.text == "{":
        return _match_tok(toks, j) + 1
    depth = 0
    k = j
    while k < len(toks):
        x = toks[k]
        if x.kind == "punct":
            if x.text in ("(", "["):
                depth += 1
            elif x.text in (")", "]"):
                depth -= 1
            elif x.text == "{" and depth == 0:
                e = _match_tok(toks, k)
                # `let x = if .. {..} else {..};` style: continue to ';' if this brace belongs to an expression stmt
                nt, ni = _next_code(toks, e + 1)
                if nt is not None and nt.text in (";",):
                    return ni + 1
                if nt is not None and nt.kind == "ident" and nt.text == "else":
                    k = ni
                    continue
                return e + 1
            elif x.text == ";" and depth == 0:
                return k + 1
            elif x.text == "," and depth == 0:
                return k + 1
        k += 1
    raise ExtractError("annotated item end not found")


def _split_top(toks):
    args, cur, depth = [], [], 0
    for t in toks:
        if t.kind == "punct" and t.text in OPEN:
            depth += 1
        elif t.kind == "punct" and t.text in CLOSE:
            depth -= 1
        if t.kind == "punct" and t.text == "," and depth == 0:
            args.append(cur)
            cur = []
        else:
            cur.append(t)
    if any(x.kind != "ws" for x in cur):
        args.append(cur)
    return args


def _join_src(ts):
    out = []
    prev = None
    for t in ts:
        if prev is not None and prev.kind in ("ident", "num") and t.kind in ("ident", "num"):
            out.append(" ")
        out.append(t.text)
        prev = t
    return "".join(out)


def _short(s, n=160):
    s = " ".join(s.split())
    return s if len(s) <= n else s[: n - 3] + "..."
