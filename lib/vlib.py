"""Common machinery for /verif checks: scratch copies, Kani runs, Verus runs, evidence, findings.

Exit codes of bin/check: 0 = property held on everything explored (KNOWN-FINDING lines allowed),
1 = violation (a VIOLATION line is printed), 2 = undecided (tool limit / extraction problem), never an alarm.
"""
import hashlib
import json
import os
import re
import shutil
import subprocess
import sys
import tempfile
import time

VERIF = os.path.dirname(os.path.dirname(os.path.abspath(__file__)))
REPO = os.environ.get("VERIF_REPO", "/repo")
KANI_DIR = os.path.join(VERIF, "kani")
ENV = dict(os.environ, CARGO_NET_OFFLINE="true", CARGO_TERM_COLOR="never")

# categories of failed CBMC checks that mean "tool limit", not "property violated"
UNDECIDED_CATEGORIES = {"unwind", "unsupported_construct", "unstable", "internal", "unwinding"}


def log(*a):
    print(*a, flush=True)


def sha256_file(p):
    h = hashlib.sha256()
    with open(p, "rb") as f:
        h.update(f.read())
    return h.hexdigest()


class Scratch:
    """Verbatim copy of the /repo working tree (no target/, no .git) outside /repo and /verif."""

    def __init__(self, keep=False):
        base = os.environ.get("VERIF_SCRATCH_BASE") or tempfile.gettempdir()
        self.dir = tempfile.mkdtemp(prefix="verif-scratch-", dir=base)
        self.repo = os.path.join(self.dir, "repo")
        self.keep = keep
        self.appended = []

    def __enter__(self):
        subprocess.run(
            ["rsync", "-a", "--exclude", "target", "--exclude", ".git", REPO + "/", self.repo + "/"],
            check=True,
        )
        return self

    def __exit__(self, *exc):
        if not self.keep:
            shutil.rmtree(self.dir, ignore_errors=True)

    def append_kani_modules(self):
        """Append every /verif/kani/<path with __>.rs to the same-named source file (append-only)."""
        for fn in sorted(os.listdir(KANI_DIR)):
            if not fn.endswith(".rs"):
                continue
            rel = fn[:-3].replace("__", "/") + ".rs"
            dst = os.path.join(self.repo, rel)
            if not os.path.exists(dst):
                raise Undecided(f"anchor file {rel} not found in working tree")
            before = sum(1 for _ in open(dst, encoding="utf-8", errors="replace"))
            with open(dst, "a") as out, open(os.path.join(KANI_DIR, fn)) as src:
                text = src.read()
                out.write("\n" + text)
            self.appended.append(
                {"file": rel, "sha256_before": sha256_file(os.path.join(REPO, rel)), "appended_after_line": before,
                 "appended_lines": text.count("\n") + 1}
            )


class Undecided(Exception):
    pass


# --------------------------------------------------------------------------- harness registry

META_RE = re.compile(r"^\s*//@\s*(.*)$")
FN_RE = re.compile(r"^\s*(?:(?:pub\s+)?fn\s+(c\d\d_\w+)\s*\(|\w+!\(\s*(c\d\d_\w+)\s*,)")


def load_harness_registry():
    """Parse `//@ key=value ... : statement` comment lines preceding each harness fn in /verif/kani/*.rs.

    keys: kind=P|I|B (proved / inductive / bounded), props=C01,C02 (default: from name prefix),
    fn=<function under contract>, bound=<text> (mandatory for B), tier=quick|thorough (default quick),
    known=<finding id> (harness is expected to FAIL on the pinned tree; see known_findings.txt),
    stubs=<comma list of trusted models used>.
    """
    reg = {}
    for fn in sorted(os.listdir(KANI_DIR)):
        if not fn.endswith(".rs"):
            continue
        rel = fn[:-3].replace("__", "/") + ".rs"
        meta = None
        for line in open(os.path.join(KANI_DIR, fn)):
            m = META_RE.match(line)
            if m:
                body = m.group(1)
                kv, _, stmt = body.partition(" : ")
                d = {"statement": stmt.strip()}
                for tok in kv.split():
                    if "=" in tok:
                        k, v = tok.split("=", 1)
                        d[k] = v
                if meta is not None and "statement" in meta and not kv.strip():
                    meta["statement"] += " " + stmt.strip()
                else:
                    meta = d
                continue
            m = FN_RE.match(line)
            if m and meta is not None:
                name = m.group(1) or m.group(2)
                meta.setdefault("kind", "P")
                meta.setdefault("tier", "quick")
                meta.setdefault("props", name[:3].upper())
                meta["props"] = meta["props"].split(",")
                meta["file"] = rel
                meta["name"] = name
                meta["qual"] = module_path(rel) + "__verif_kani::" + name
                if meta["kind"] == "B" and "bound" not in meta:
                    raise SystemExit(f"harness {name}: kind=B needs bound=")
                reg[name] = meta
                meta = None
    return reg


def module_path(rel):
    parts = rel[len("src/"):-3].split("/")
    if parts[-1] in ("mod", "lib"):
        parts = parts[:-1]
    return "".join(p + "::" for p in parts)


# --------------------------------------------------------------------------- Kani

def run_kani(scratch, harness_names, jobs=8, timeout_s=1500, extra_args=(), log_path=None, mem_gb=48):
    """Run the selected harnesses with one cargo-kani invocation; return dict name -> result."""
    out_json = os.path.join(scratch.dir, "kani_out.json")
    if os.path.exists(out_json):
        os.remove(out_json)
    cmd = ["cargo", "kani", "--lib", "-Z", "function-contracts", "-Z", "stubbing", "-Z", "unstable-options",
           "--output-format", "terse", "--harness-timeout", f"{timeout_s}s", "-j", str(jobs),
           "--export-json", out_json, "--exact"]
    full = {}
    for h in harness_names:
        cmd += ["--harness", h]
    cmd += list(extra_args)
    t0 = time.time()
    shell = f"ulimit -v {mem_gb * 1024 * 1024}; exec " + " ".join(map(_shq, cmd))
    p = run_group(["bash", "-c", shell], cwd=scratch.repo)
    wall = time.time() - t0
    if log_path:
        with open(log_path, "w") as f:
            f.write("$ " + " ".join(cmd) + "\n" + p.stdout)
    res = {"cmd": " ".join(cmd), "wall_s": wall, "stdout": p.stdout, "harnesses": {}, "returncode": p.returncode}
    if not os.path.exists(out_json):
        # compile error or crash: undecided
        res["error"] = "no JSON export (compile error, crash or kill)"
        return res
    d = json.load(open(out_json))
    res["tools"] = d.get("tools", {})
    stats = {c["harness_id"]: (c.get("cbmc_stats") or {}) for c in d.get("cbmc", [])}
    for r in d.get("verification_results", {}).get("results", []):
        hid = r["harness_id"]
        short = hid.rsplit("::", 1)[-1]
        failed = []
        covers = []
        nchecks = 0
        for c in r.get("checks", []):
            nchecks += 1
            st = c.get("status", "")
            if c.get("category") == "cover" or st in ("Satisfied", "Unsatisfiable", "SATISFIED", "UNSATISFIABLE"):
                covers.append({"description": c.get("description"), "status": st})
                continue
            if st.lower() in ("failure", "failed"):
                loc = c.get("location", {})
                failed.append({"category": c.get("category"), "description": c.get("description"),
                               "function": c.get("function"),
                               "location": f"{loc.get('file')}:{loc.get('line')}"})
        res["harnesses"][short] = {
            "id": hid, "status": r.get("status"), "duration_s": r.get("duration_ms", 0) / 1000.0,
            "checks": nchecks, "failed_checks": failed, "covers": covers,
            "solver_s": stats.get(hid, {}).get("runtime_solver_s"),
        }
    # stubs actually applied (Kani prints "- Stub: a -> b")
    res["stubs_applied"] = sorted(set(re.findall(r"- Stub: (.*)", p.stdout)))
    return res


_CHILDREN = []


def run_group(cmd, cwd, timeout=None):
    """subprocess.run in its own process group (so a killed check takes cbmc with it)."""
    import signal
    proc = subprocess.Popen(cmd, cwd=cwd, env=ENV, stdout=subprocess.PIPE, stderr=subprocess.STDOUT, text=True,
                            start_new_session=True)
    _CHILDREN.append(proc)
    try:
        out, _ = proc.communicate(timeout=timeout)
    except subprocess.TimeoutExpired:
        os.killpg(proc.pid, signal.SIGKILL)
        out, _ = proc.communicate()
        out = (out or "") + "\n[verif] killed after timeout\n"
    finally:
        _CHILDREN.remove(proc)

    class R:
        pass
    r = R()
    r.stdout = out
    r.returncode = proc.returncode
    return r


def install_signal_cleanup():
    import signal

    def handler(signum, frame):
        for pr in list(_CHILDREN):
            try:
                os.killpg(pr.pid, signal.SIGKILL)
            except Exception:
                pass
        raise KeyboardInterrupt()
    signal.signal(signal.SIGTERM, handler)
    signal.signal(signal.SIGINT, handler)


def _shq(s):
    return "'" + s.replace("'", "'\\''") + "'"


def classify_kani(name, h):
    """-> ('ok'|'violation'|'undecided', reason)"""
    if h is None:
        return "undecided", "harness did not run (not found / compile error)"
    st = (h["status"] or "").lower()
    if st == "success":
        bad = [c for c in h["covers"] if c["status"].lower().startswith("unsat")]
        if bad:
            return "undecided", "vacuous: cover unsatisfiable: " + "; ".join(str(c["description"]) for c in bad)
        return "ok", ""
    if h["failed_checks"]:
        sem = [c for c in h["failed_checks"] if (c["category"] or "") not in UNDECIDED_CATEGORIES
               and "unwinding assertion" not in (c["description"] or "")
               and "is not currently supported" not in (c["description"] or "")]
        if sem:
            return "violation", "; ".join(f"{c['description']} @ {c['location']}" for c in sem[:4])
        return "undecided", "; ".join(f"{c['category']}: {c['description']}" for c in h["failed_checks"][:4])
    return "undecided", f"status={h['status']} (timeout / out of memory / solver error)"


PLAYBACK_RE = re.compile(r"Concrete playback unit test for `([^`]+)`:\s*```\n(.*?)```", re.S)


def kani_counterexample(scratch, harness, timeout_s=None):
    timeout_s = timeout_s or int(max(900, 2 * (harness.get("duration_s") or 0)))
    """Re-run one failing harness with concrete playback, then execute the generated test natively
    (cargo kani playback) against the real code in the scratch copy. Returns dict."""
    cmd = ["cargo", "kani", "--lib", "-Z", "function-contracts", "-Z", "stubbing", "-Z", "unstable-options",
           "-Z", "concrete-playback", "--concrete-playback=print", "--output-format", "terse",
           "--harness-timeout", f"{timeout_s}s", "--exact", "--harness", harness["id"]]
    p = run_group(cmd, cwd=scratch.repo)
    out = {"playback_cmd": " ".join(cmd)}
    m = PLAYBACK_RE.search(p.stdout)
    if not m:
        out["found"] = False
        out["note"] = "verifier produced no concrete values"
        out["verifier_output_tail"] = p.stdout[-4000:]
        return out
    test_text = m.group(2)
    out["found"] = True
    out["test_text"] = test_text
    out["concrete_vals"] = re.findall(r"^\s*//\s*(.+)\n\s*vec!\[([^\]]*)\]", test_text, re.M)
    out.update(native_playback(scratch, harness["file"], test_text))
    return out


def native_playback(scratch, rel_file, test_text):
    """Append the generated #[test] inside the harness module's file (as a sibling module that imports the
    harness module) and run it natively with `cargo kani playback`."""
    m = re.search(r"fn (kani_concrete_playback_\w+)\(\)", test_text)
    tname = m.group(1)
    hm = re.search(r"kani::concrete_playback_run\(concrete_vals, (\w+)\)", test_text)
    path = os.path.join(scratch.repo, rel_file)
    with open(path, "a") as f:
        f.write("\n#[cfg(kani)]\n#[allow(unused)]\nmod __verif_replay {\n    use super::__verif_kani::*;\n"
                + test_text + "\n}\n")
    cmd = ["cargo", "kani", "playback", "-Z", "concrete-playback", "--lib", "--", tname]
    p = run_group(cmd, cwd=scratch.repo)
    reproduced = ("test result: FAILED" in p.stdout) and (tname in p.stdout)
    passed = "test result: ok. 1 passed" in p.stdout
    return {"native_replay_cmd": " ".join(cmd), "native_reproduced": reproduced,
            "native_passed": passed, "native_output_tail": p.stdout[-3000:]}


# --------------------------------------------------------------------------- known findings

def load_known_findings():
    """known_findings.txt: lines `finding: property=<id> obligation=<harness or verus fn> : <what fails>` and
    `fixed: property=<id> <commit> <what failed>` (fixed entries suppress nothing)."""
    path = os.path.join(VERIF, "known_findings.txt")
    out = []
    if os.path.exists(path):
        for line in open(path):
            line = line.strip()
            if line.startswith("finding:"):
                kv, _, text = line[len("finding:"):].partition(" : ")
                d = dict(t.split("=", 1) for t in kv.split() if "=" in t)
                d["text"] = text.strip()
                out.append(d)
    return out


# --------------------------------------------------------------------------- evidence

def write_evidence(prop, tier, seed, level, coverage, assumptions, wall_s, violations):
    os.makedirs(os.path.join(VERIF, "evidence"), exist_ok=True)
    ev = {"property_id": prop, "tier": tier, "seed": seed, "level": level, "coverage": coverage,
          "assumptions": assumptions, "wall_s": round(wall_s, 2), "violations": violations}
    with open(os.path.join(VERIF, "evidence", f"{prop}.json"), "w") as f:
        json.dump(ev, f, indent=1)
    return ev
