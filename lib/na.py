"""Reasons for properties not claimed (kept in step with DESIGN.md section 4)."""
NA = {
    "C06": "whole-document equivalence with a conforming JSON parser needs a verified value-level parser as oracle plus String/Cow/f64 parsing in the cone; no contract within reach of Verus or Kani expresses it",
    "C10": "floating-point shortest-round-trip printing through core::fmt/dec2flt: Verus has no float reasoning and CBMC cannot bit-blast Grisu/Ryu plus decimal parsing in any useful bound",
    "C11": "observable only as CLI stdout of `succinctly jq` across printer routes (cli binary over String/IndexMap/f64); outside both verifiers",
    "C14": "correctness of the 7k-line context-sensitive YAML parser against YAML 1.2 for all presentations: no tractable spec function and no per-function decomposition that carries it",
    "C15": "quantifies over programs x documents through the evaluator and the YAML emitter at the CLI; same obstacle as C14 plus C23",
    "C18": "'never rejects a well-formed document' needs the YAML well-formedness spec of C14; the termination/position half alone is not the property",
    "C19": "panic-freedom of build+traverse+print for all byte strings: loaders and printers (Vec/String-heavy, 10k+ lines) are far beyond CBMC memory and Verus' supported subset; functions under contract elsewhere are proved panic-free on their domains but that is not this property",
    "C22": "composition of @csv/@dsv formatting in the 54k-line evaluator with CLI DSV input decoding (String-level code); outside reach",
    "C23": "relational equivalence of two evaluators of 54k and 10k lines over all programs; not tractable for deductive verification",
    "C24": "oracle is the external jq 1.7.1 binary; no contract can state it",
    "C25": "identities over evaluator value semantics (f64 ordering, heap path machinery, base64/uri on String); outside reach",
    "C26": "two parsers plus the evaluator at the CLI; outside reach",
    "C27": "route independence of CLI output: relational property over streaming and materialising printers in the cli binary",
    "C28": "locate -> printed expression -> evaluated by jq::eval; needs the evaluator",
    "C29": "same as C28 for YAML",
    "C30": "panic/abort freedom of parse+eval for all programs; evaluator outside reach and allocation-failure aborts are not modelled by either verifier",
}
