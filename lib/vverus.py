"""Verus units: mechanical extraction of real functions + spliced contracts. (filled in below)"""
UNITS = {}


def units_for(prop, tier):
    return [u for u in UNITS.values() if prop in u["props"] and (tier == "thorough" or u.get("tier", "quick") == "quick")]


def run_units(scratch, units, seed=0):
    return {"obligations": [], "info": {}}
