"""Per-property claim metadata (level, explanation, trusted base). Obligations themselves are registered in
/verif/kani/*.rs (`//@` lines) and /verif/verus/*.toml."""

MODELS = "scalar lane-loop models of x86 intrinsics Kani cannot execute (kani/src__lib.rs, transcribed from the Intel SDM): "
COMMON_TRUST = [
    "Kani 0.68 MIR->goto translation, CBMC 6.11, CaDiCaL",
    "Kani's built-in models of natively supported core::arch intrinsics and of core/alloc",
    "harness-side reference functions (bit-at-a-time definitions) are the intended mathematical meaning",
]

PROPS = {
    "C02": {
        "level": "proof",
        "explanation": "Every word-level kernel named by the property is executed symbolically by Kani/CBMC on its full input "
                       "domain (all 2^64 words, all k / p / start bits, all 8-word blocks, all 256 table rows) and compared with a "
                       "bit-at-a-time reference; loops are bounded by the operand width (64 bits / 8 bytes / 8 words) and unwinding "
                       "assertions are on, so each harness is a complete proof, not a bounded one. Dispatchers are checked with the "
                       "CPU-feature flag nondeterministic, so both arms are covered on any host.",
        "trusted_base": COMMON_TRUST + [MODELS + "_pdep_u64, _mm256_shuffle_epi8, _mm256_sad_epu8"],
        "assumptions": ["x86_64 only: NEON/SVE2 kernels and the AVX-512 popcount (feature simd) are not verified",
                        "real silicon implements PDEP/PSHUFB/PSADBW as the SDM pseudo-code says"],
    },
    "C01": {
        "level": "proof",
        "explanation": "Verus proves, on the text of the real functions extracted from the working tree on every run, that "
                       "BitVec::{with_config,get,rank1,rank0,select1,select0,count_ones,count_zeros}, scan_select/scan_scalar/"
                       "scan_select_scalar, SelectIndex::{build,jump_to} and RankDirectory::{build,rank_at_word} meet contracts "
                       "phrased over the bit-at-a-time definitions (rank1_bits, is_select1, is_select0) for every word vector, "
                       "length, query argument and sample rate; the word-level kernels they call (count_ones, popcount_word*, "
                       "block_popcount*, select_in_word and its three back ends) are proved complete by Kani over all 2^64 words. "
                       "Independence from the sample rate and popcount strategy is a corollary: no postcondition mentions them.",
        "trusted_base": COMMON_TRUST + [MODELS + "_pdep_u64, _mm256_shuffle_epi8, _mm256_sad_epu8",
                                        "Verus 0.2026.09.13 + Z3; vstd specs of Vec/slice/Option",
                                        "seam R4: a contract proved by Kani (machine integers) and used by Verus as an external_body "
                                        "stub (nat/Seq) state the same thing"],
        "assumptions": ["x86_64 only; AVX-512 popcount of feature simd and aarch64 kernels unverified",
                        "CacheAlignedL1L2 (unsafe aligned allocation) is modelled as a Vec<u128>-like sequence",
                        "slice lengths <= usize::MAX/64 - 8 words (allocation limit)"],
    },
    "C31": {
        "level": "proof",
        "explanation": "Kani/CBMC executes the real words_to_bytes / bytes_to_words / bytes_to_words_vec / try_bytes_to_words "
                       "(through bytemuck::cast_slice, whose body is in the verified cone) on symbolic byte buffers sliced at a symbolic "
                       "offset 0..8 of an 8-aligned buffer object, so the harness quantifies over every "
                       "alignment, every length and every content; panics are failed checks. The harness arrays are short (<= 4 words) "
                       "because the casts are length-generic. 'Rebuilt indexes answer identically' follows because JsonIndex::from_parts / "
                       "BalancedParens::from_words depend only on the word contents (contracts of C04/C07).",
        "trusted_base": COMMON_TRUST + ["CBMC's pointer model: the byte buffer object is at least 8-aligned, so slice offsets 0..8 enumerate all alignments (checked by the aligned/misaligned harness pair)"],
        "assumptions": ["word-vector length <= 4 in the harness arrays (alignment and length arithmetic: all cases)"],
    },
    "C20": {
        "level": "proof",
        "explanation": "Per 64-byte chunk, Kani/CBMC executes the real process_chunk_64 of the AVX2, SSE2 and BMI2 engines (real "
                       "core::arch intrinsics; PDEP through its SDM model) for ALL 2^512 chunks, all pairwise-distinct (delimiter, quote, "
                       "newline) triples and both carries and proves the returned (markers, newlines, carry) equal 64 steps of the scalar "
                       "state machine of dsv::parser::build_index; the shared quote-mask primitives are proved against the toggle "
                       "definition for all 2^64 bitmaps. The outer chunk/tail loops, BitWriter and the dispatcher are covered by bounded "
                       "whole-engine comparisons at fixed lengths (labelled bounded, not counted as proved).",
        "trusted_base": COMMON_TRUST + [MODELS + "_pdep_u64"],
        "assumptions": ["NEON/SVE2 engines unverified", "configurations with equal special bytes are outside the property"],
    },
    "C05": {
        "level": "proof",
        "explanation": "The equality of the three engines is decomposed into contracts: (1) PFSM tables == reference machine for all 256 "
                       "bytes x 4 states; (2) classify_chars of the AVX2 and SSE2 engines is exact per lane for all chunks; (3) one step of "
                       "process_chunk_standard / process_chunk_simple on any lane of a real classification equals one step of the reference "
                       "machine in every state, including the bits appended to IB and BP; (4) BitWriter appends exactly the given bits from "
                       "any state. All four are complete Kani proofs (loop-free or bounded by the chunk width). The per-lane loop indexing is "
                       "additionally exercised on three consecutive lanes and the outer chunk/tail loops on fixed-length inputs "
                       "(labelled bounded).",
        "trusted_base": COMMON_TRUST + [MODELS + "_mm256_min_epu8, _mm256_sub_epi8, _mm_min_epu8, _mm_sub_epi8"],
        "assumptions": ["NEON/SVE2 engines unverified",
                        "the two-line runtime dispatchers json::simd::build_semi_index_{standard,simple} (cpuid) are not executed by Kani",
                        "outer chunk loops of the SIMD builders and the PFSM/scalar byte loops: bounded evidence only (see coverage.bounded)"],
    },
    "C07": {
        "level": "proof",
        "explanation": "Verus proves on the extracted text of the real functions: build_ib_rank (rank[i] == ones before word i), ib_rank1 "
                       "(== bit-level rank for every pos, also past the end), ib_select1 and ib_select1_from (both == the bit-level select "
                       "definition for EVERY k: usize and EVERY hint: usize, so the answer cannot depend on the hint; both galloping loops and "
                       "the binary searches terminate), JsonCursor::text_position (== select of the BP rank) and cursor_at_offset (the BP open "
                       "whose ordinal is the number of interest bits at positions <= offset, minus one; None iff none). cursor_at_position is "
                       "to_offset (C12 contract) followed by cursor_at_offset.",
        "trusted_base": COMMON_TRUST + ["Verus 0.2026.09.13 + Z3; vstd specs of Vec/slice/Option",
                                        "seam R4: BalancedParens::rank1 contract (C04), select_in_word contract (Kani, C02)"],
        "assumptions": ["index invariant of callers (ib_rank built by build_ib_rank over the same words; bits past ib_len clear; < 2^32 interest bits; ib_len <= text.len())",
                        "JsonIndex<W> verified for W = Vec<u64> (the borrowed-storage instantiation runs the same text)"],
    },
    "C12": {
        "level": "proof",
        "explanation": "Verus proves on the extracted text of LineIndex::{to_line_column, walk_forward_from, line_start, to_offset} that for "
                       "every argument and for EVERY cache content satisfying the cache invariant the answer is the table lookup the naive "
                       "scan defines, and that every value written to the cache satisfies the invariant; all finite query histories follow by "
                       "induction (the postcondition does not mention the cache). The round trip is a lemma over the two contracts. "
                       "line_break_len is proved complete by Kani. LineIndex::build (start list == naive line starts) is covered by a bounded "
                       "Kani twin only.",
        "trusted_base": COMMON_TRUST + ["Verus 0.2026.09.13 + Z3", "InvCell model of core::cell::Cell (a Cell holds what was last stored)",
                                        "EliasFano::{get,predecessor,len,build} contracts (C03)"],
        "assumptions": ["offset < usize::MAX for to_line_column (for offset == usize::MAX and a line start of 0 the naive column "
                        "offset - start + 1 is not representable)",
                        "LineIndex::build: bounded evidence only (all texts of 5 bytes over {LF,CR,'a'})"],
    },
}
FIX_COMMITS = ["2cec8d3"]
