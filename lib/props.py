"""Per-property claim metadata (level, explanation, trusted base). Obligations themselves are registered in
/verif/kani/*.rs (`//@` lines) and /verif/verus/*.toml."""

MODELS = "scalar lane-loop models of x86 intrinsics Kani cannot execute (kani/src__lib.rs, transcribed from the Intel SDM): "
COMMON_TRUST = [
    "Kani 0.68 MIR->goto translation, CBMC 6.11, CaDiCaL",
    "Kani's built-in models of natively supported core::arch intrinsics and of core/alloc",
    "harness-side reference functions (bit-at-a-time definitions) are the intended mathematical meaning",
]

PROPS = {
    "C02": {
        "level": "proof",
        "explanation": "Every word-level kernel named by the property is executed symbolically by Kani/CBMC on its full input "
                       "domain (all 2^64 words, all k / p / start bits, all 8-word blocks, all 256 table rows) and compared with a "
                       "bit-at-a-time reference; loops are bounded by the operand width (64 bits / 8 bytes / 8 words) and unwinding "
                       "assertions are on, so each harness is a complete proof, not a bounded one. Dispatchers are checked with the "
                       "CPU-feature flag nondeterministic, so both arms are covered on any host. scan_select / scan_scalar / "
                       "scan_select_scalar, the property's observation points for the block popcount, are proved by Verus (unit c01_scan) "
                       "for every slice, start word and rank (no bound).",
        "trusted_base": COMMON_TRUST + [MODELS + "_pdep_u64, _mm256_shuffle_epi8, _mm256_sad_epu8"],
        "assumptions": ["x86_64 only: NEON/SVE2 kernels and the AVX-512 popcount (feature simd) are not verified",
                        "real silicon implements PDEP/PSHUFB/PSADBW as the SDM pseudo-code says"],
    },
    "C01": {
        "level": "proof",
        "explanation": "Verus proves, on the text of the real functions extracted from the working tree on every run, that "
                       "BitVec::{with_config,get,rank1,rank0,select1,select0,count_ones,count_zeros}, scan_select/scan_scalar/"
                       "scan_select_scalar, SelectIndex::{build,jump_to} and RankDirectory::{build,rank_at_word} meet contracts "
                       "phrased over the bit-at-a-time definitions (rank1_bits, is_select1, is_select0) for every word vector, "
                       "length, query argument and sample rate; the word-level kernels they call (count_ones, popcount_word*, "
                       "block_popcount*, select_in_word and its three back ends) are proved complete by Kani over all 2^64 words. "
                       "Independence from the sample rate and popcount strategy is a corollary: no postcondition mentions them.",
        "trusted_base": COMMON_TRUST + [MODELS + "_pdep_u64, _mm256_shuffle_epi8, _mm256_sad_epu8",
                                        "Verus 0.2026.09.13 + Z3; vstd specs of Vec/slice/Option",
                                        "seam R4: a contract proved by Kani (machine integers) and used by Verus as an external_body "
                                        "stub (nat/Seq) state the same thing"],
        "assumptions": ["x86_64 only; AVX-512 popcount of feature simd and aarch64 kernels unverified",
                        "CacheAlignedL1L2 (unsafe aligned allocation) is modelled as a Vec<u128>-like sequence",
                        "slice lengths <= usize::MAX/64 - 8 words (allocation limit)"],
    },
    "C31": {
        "level": "model_checking",
        "explanation": "BOUNDED, not proved: the four conversion functions are one-line wrappers over bytemuck pointer casts and an iterator "
                       "chain (chunks_exact / map / collect); neither Verus (no raw-pointer casts, no iterator adapters) nor a Kani function "
                       "contract (the result length is unbounded) can state them for every length. What is decided: Kani/CBMC executes the real "
                       "words_to_bytes / bytes_to_words / bytes_to_words_vec / try_bytes_to_words (through bytemuck::cast_slice, whose body is in "
                       "the cone) on symbolic byte buffers sliced at a symbolic offset 0..8 of an 8-aligned buffer object, so each harness covers "
                       "every alignment and every content for every length up to its stated bound (<= 4 words); panics are failed checks. The "
                       "casts contain no length-dependent loop, which is why short buffers are representative, but that is an argument, not a "
                       "discharged obligation. Third sentence (rebuilt indexes answer as the originals), IB half: PROVED -- Verus unit c07_ib puts the real "
                       "JsonIndex::from_parts under contract (stores exactly the given words and length, rank directory == cumulative popcount, "
                       "invariant ib_wf) and every IB query is proved to depend on (ib, ib_len) only; a bounded Kani companion replays it on "
                       "two-word bitmaps. BP half: BalancedParens::from_words is under contract in unit c04_build (stores the given words and length and "
                       "the directories build_bp_index derives from them, field by field, exactly as `new` does for masked words).",
        "technique": "bounded stand-in of the contract family (Kani/CBMC harnesses over all inputs within a stated length bound); no unbounded contract within reach, see explanation",
        "trusted_base": COMMON_TRUST + ["CBMC's pointer model: the byte buffer object is at least 8-aligned, so slice offsets 0..8 enumerate all alignments (checked by the aligned/misaligned harness pair)"],
        "assumptions": ["word-vector length <= 4 in the harness arrays (alignment and length arithmetic: all cases)"],
    },
    "C20": {
        "level": "proof",
        "explanation": "Per 64-byte chunk, Kani/CBMC executes the real process_chunk_64 of the AVX2, SSE2 and BMI2 engines (real core::arch "
                       "intrinsics; PDEP through its SDM model) for ALL 2^512 chunks, all pairwise-distinct (delimiter, quote, newline) triples "
                       "and both carries and proves the returned (markers, newlines, carry) equal 64 steps of the scalar state machine; the "
                       "quote-mask primitives are proved for all 2^64 bitmaps. Verus then proves, on the extracted text and for texts of "
                       "every length, that the outer loops of the three engines (chunk loop with carried quote state, zero-padded and masked "
                       "tail), their wrappers, the runtime dispatcher (CPU-feature answers arbitrary) and the scalar builder all produce the "
                       "reference marker/newline bit vectors; the rank/select layer over those vectors is unit c21_index.",
        "trusted_base": COMMON_TRUST + [MODELS + "_pdep_u64", "Verus 0.2026.09.13 + Z3; seam R4 between the Kani chunk contract and the Verus chunk stub",
                                        "BitWriter contracts: Verus unit c05_bitwriter (all operations, any state)"],
        "assumptions": ["NEON/SVE2 engines unverified", "configurations with equal special bytes are outside the property", "text.len() <= u32::MAX (asserted by the index constructor)"],
    },
    "C05": {
        "level": "proof",
        "explanation": "Verus proves, on the extracted text of the real functions and for inputs of every length, that the byte-at-a-time "
                       "reference builders (standard and simple encodings), the table-driven PFSM builder, json::standard::build_semi_index and "
                       "the AVX2 and SSE2 builders (per-lane chunk processors process_chunk_standard / process_chunk_simple and the outer "
                       "chunk loops with carried state and zero-padded tail) all emit exactly the fold of the reference state machine (IB bits, "
                       "BP bits, final state); the code's state_machine is proved equal to an independent restatement of the machine. The "
                       "pieces Verus cannot see are complete Kani proofs used as callee contracts: classify_chars per lane for all chunks "
                       "(real intrinsics), PFSM tables == reference for all 256 bytes x 4 states, BitWriter write_bit/write_bits from any state.",
        "trusted_base": COMMON_TRUST + [MODELS + "_mm256_min_epu8, _mm256_sub_epi8, _mm_min_epu8, _mm_sub_epi8",
                                        "Verus 0.2026.09.13 + Z3; seam R4 between Kani-proved kernel contracts and Verus stubs"],
        "assumptions": ["NEON/SVE2 engines unverified",
                        "the runtime dispatchers json::simd::build_semi_index_{standard,simple} and the safe AVX2 entry points ARE extracted and proved (cpuid macro -> arbitrary boolean; the SSE2 engine enters as the contract proved in the _sse2 units)",
                                                "usize is 64 bits"],
    },
    "C07": {
        "level": "proof",
        "explanation": "Verus proves on the extracted text of the real functions: build_ib_rank (rank[i] == ones before word i), ib_rank1 "
                       "(== bit-level rank for every pos, also past the end), ib_select1 and ib_select1_from (both == the bit-level select "
                       "definition for EVERY k: usize and EVERY hint: usize, so the answer cannot depend on the hint; both galloping loops and "
                       "the binary searches terminate), JsonCursor::text_position (== select of the BP rank) and cursor_at_offset (the BP open "
                       "whose ordinal is the number of interest bits at positions <= offset, minus one; None iff none). cursor_at_position is "
                       "to_offset (C12 contract) followed by cursor_at_offset.",
        "trusted_base": COMMON_TRUST + ["Verus 0.2026.09.13 + Z3; vstd specs of Vec/slice/Option",
                                        "seam R4: BalancedParens::rank1 contract (C04), select_in_word contract (Kani, C02)"],
        "assumptions": ["the index invariant ib_wf is ESTABLISHED by the real JsonIndex::build (proved in unit c07_ib for texts up to u32::MAX bytes: rank directory == cumulative popcount of the stored words, bits past ib_len clear), given the IB half of the builders' postcondition (one bit per input byte, zero padded: C05 units) as the contract of the dispatcher stub; from_parts callers must supply the same",
                        "JsonIndex<W> verified for W = Vec<u64> (the borrowed-storage instantiation runs the same text)"],
    },
    "C12": {
        "level": "proof",
        "explanation": "Verus proves on the extracted text of LineIndex::{to_line_column, walk_forward_from, line_start, to_offset} that for "
                       "every argument and for EVERY cache content satisfying the cache invariant the answer is the table lookup the naive "
                       "scan defines, and that every value written to the cache satisfies the invariant; all finite query histories follow by "
                       "induction (the postcondition does not mention the cache). The round trip is a lemma over the two contracts. "
                       "LineIndex::build is proved too: the stored line starts are strictly increasing, begin with 0 and are exactly the "
                       "positions the naive LF/CR/CRLF scan calls line starts (a break at the very end starts no line), which also establishes "
                       "the representation invariant the queries assume. line_break_len is proved by Verus and, independently, complete by Kani.",
        "trusted_base": COMMON_TRUST + ["Verus 0.2026.09.13 + Z3", "InvCell model of core::cell::Cell (a Cell holds what was last stored)",
                                        "EliasFano::{get,predecessor,len,build} contracts (C03)"],
        "assumptions": ["offset < usize::MAX for to_line_column (for offset == usize::MAX and a line start of 0 the naive column "
                        "offset - start + 1 is not representable)",
                        "EliasFano::{build,get,predecessor,len} contracts are those proved in units c03_build / c03_ef (inputs of up to 2^30 line starts)"],
    },
    "C03": {
        "level": "proof",
        "explanation": "Verus proves on the extracted text of the real functions, for encodings of every length: EliasFano::select1 "
                       "(sampled start, masked first word, block-skipping scan; the `expect`s cannot fire), read_low_bits (field i of the "
                       "packed low bits, one word or spanning two), get (None iff i >= len, else the element the encoding denotes), "
                       "predecessor (None iff every element exceeds v, else the LAST index of the largest element <= v), len/is_empty/universe, "
                       "and the cursor: cursor(), cursor_from(i), current, index, is_exhausted, seek(i) from ANY state, and advance_one / "
                       "advance_by(k) for EVERY k: usize from every cursor state satisfying the representation invariant (parked on the idx-th "
                       "one with the word cache equal to that word's bits at and after it, or exhausted). Each operation re-establishes the "
                       "invariant, reports index == min(target, len) and the plain sequence's element there, so every finite interleaving "
                       "follows by induction on its length. EliasFano::build is proved too (unit c03_build): for every non-decreasing input "
                       "of up to 2^30 values the result satisfies the representation invariant the queries assume and denotes exactly the "
                       "input (elem(i) == values[i] for every i; len and universe as stated), so get/predecessor/iteration answer over the "
                       "caller's sequence. Kani re-proves the cursor steps on 2-4 word bitmaps (counterexamples replay natively).",
        "trusted_base": COMMON_TRUST + ["Verus 0.2026.09.13 + Z3; vstd specs of u64::trailing_zeros / wrapping_sub / usize::saturating_add",
                                        "seam R4: scan_select contract (unit c01_scan), select_in_word contract (Kani, C02)"],
        "assumptions": ["values.len() <= 2^30 for build (every high-bit position then fits the u32 sample table)",
                        "one trusted arithmetic fact about u64::leading_zeros (axiom_lz_top_bit), cross-checked for all u64 by Kani",
                        "EliasFanoIter::next / IntoIterator::into_iter ARE extracted (as inherent methods: Verus rejects contracts on trait impls) and proved: the k-th call yields element k; size_hint is not",
                        "usize is 64 bits"],
    },
    "C13": {
        "level": "proof",
        "explanation": "Verus proves on the extracted text, for byte strings of every length, all three engines: (scalar) "
                       "validate_utf8_scalar against the Unicode Table 3-7 definition (Ok iff well-formed; on rejection the error kind and "
                       "the offset, relative to the longest well-formed prefix); (broadword) validate_sequence == the Table 3-7 sequence "
                       "length and accepts(input) == well_formed(input); (AVX2) uge / ult lane predicates, check_block (lane i of the "
                       "accumulated error is set exactly when the kernel's local rule fires at byte i, looking back three bytes across the "
                       "block boundary) and validate_utf8_avx2(input) == well_formed(input), via a machine-checked theorem that the local "
                       "rule fires nowhere in the zero-padded stream exactly when the string is well formed. Both SIMD wrappers return Ok "
                       "when their acceptor says yes and otherwise the scalar result, so all engines agree. "
                       "The line/column clause is proved without bound by Verus (unit c13_linecol): line_and_column(input, offset) == (1 + LF "
                       "bytes before the offset, bytes since the last LF + 1) through the SWAR word loop (zero-byte test proved per lane by "
                       "bit-vector reasoning; popcount-of-lane-tops and top-bit facts are trusted lemmas cross-checked by Kani for all 2^64 "
                       "words) and the scalar tail. Kani proves completely: encode_code_point round-trip for every u32, first_high_byte for "
                       "all 2^64 masks, the trusted word lemmas, the vector lane model on the real intrinsics; and, bounded, decode on every "
                       "4-byte window and line_and_column on every 19-byte buffer (replayable companions). "
                       "The offset convention of the scalar validator differs from the property's wording for one class of inputs: recorded finding F6.",
        "trusted_base": COMMON_TRUST + [MODELS + "_mm256_max_epu8, _mm256_testz_si256", "Verus 0.2026.09.13 + Z3; intrinsic lane model verus/speclib_simd.rs",
                                        "seam R4: skip_ascii / err_at / load_word / load_block / padded_block stubs (Kani-checked or documented contracts, see units c13_scalar, c13_broadword, c13_avx2)"],
        "assumptions": ["the public wrappers validate_utf8_simd (cpuid -> arbitrary boolean) and validate_utf8_broadword ARE extracted and proved to return exactly the scalar validator's result (scalar_spec, whose Ok <=> well-formed fact is unit c13_scalar's theorem, imported as an axiom); so is the top-level validate_utf8 in both cfg instantiations (std: the AVX2 entry point; no std: the scalar validator)",
                        "lane meaning of max_epu8 / and / xor / permute2x128 / alignr / testz is the Intel SDM's (not cross-checked natively by Kani)",
                        "little-endian target; usize is 64 bits"],
    },
    "C09": {
        "kani_jobs": 5,   # each writer harness peaks at ~6.5 GB of CBMC memory: 5 at a time stay far below the 62 GB of the sandbox
        "level": "proof",
        "explanation": "Per character the claim is complete: for EVERY Unicode scalar value (symbolic char) each of the four writers, run on "
                       "the real code through a fixed-capacity fmt::Write sink, produces a body that an RFC 8259 string decoder maps back to "
                       "that character, and the body starts with a backslash exactly when the convention requires an escape (Kani, 12 "
                       "harnesses: 4 writers x {ASCII, BMP, supplementary}). The scanner sentence is proved without bound by Verus on the "
                       "text the define_escape_scanner! macro generates for json_escape: the AVX2 and SSE2 lane masks are exact (lane == "
                       "0xFF iff quote, backslash or below 0x20) and scalar / avx2 / sse2 / dispatch / x86 / find / find_json_escape return "
                       "exactly the index of the first such byte at or after start (the length if none) for buffers of every length and "
                       "every start, every vector load in bounds. Concatenation over longer strings (the writers' loops over a str) is "
                       "bounded: 2-character strings (thorough tier).",
        "trusted_base": COMMON_TRUST + [MODELS + "_mm256_subs_epu8, _mm_subs_epu8"],
        "assumptions": ["strings longer than 2 characters / buffers longer than 83 bytes: by the stateless per-character structure only (bounded evidence)",
                        "NEON scanner unverified; avx2_enabled() (cpuid) not executed, dispatch(use_avx2) checked for both values"],
    },
    "C16": {
        "level": "proof",
        "explanation": "The second sentence of the property (each vectorised scanning kernel returns the same answer as its scalar "
                       "counterpart for every buffer and start offset) is PROVED: Verus checks the extracted text of all seven kernel families "
                       "-- classify_yaml_chars (AVX2 + SSE2 + dispatcher, both HAS_CR settings: the nine per-lane masks and the width; it has no "
                       "scalar counterpart, so the per-lane definition stands in; unit c16_classify), find_newline, find_quote_or_escape, find_single_quote, count_leading_spaces (AVX2 + SSE2 + runtime dispatcher "
                       "each), parse_anchor_name (scalar, AVX2, dispatcher) and find_block_scalar_end (scalar, AVX2, SSE2, dispatcher) -- for "
                       "buffers of every length and every start/end/min_indent against the scalar definitions (first byte of the class; "
                       "number of leading spaces; first terminator with the colon-lookahead rule; start of the first under-indented line), "
                       "with the scalar loops themselves proved equal to those definitions where they are loops (anchor, block scalar). The "
                       "x86 intrinsics are a lane model (set1/loadu/cmpeq/or/movemask as stubs with the SDM lane semantics) that Kani "
                       "cross-checks on the real intrinsics for all vectors; every vector load's in-bounds condition is a proof obligation. "
                       "Kani additionally runs classify_yaml_chars on every 40-byte input and every kernel against its scalar counterpart on 51-byte "
                       "buffers (replayable counterexamples). The FIRST sentence (identical whole index and output across kernel "
                       "configurations) is NOT decided: it needs a proof about the 7k-line parser that consumes the kernels.",
        "trusted_base": COMMON_TRUST + ["Verus 0.2026.09.13 + Z3; intrinsic lane model verus/speclib_simd.rs (Kani c16_intrinsic_lanes_256/_128)",
                                        "avx2_enabled() (env clamp + cpuid) replaced by an arbitrary boolean",
                                        "std iterator adapters in the scalar tails ((a..b).find, take_while(..).count()) replaced by stubs with their documented meaning"],
        "assumptions": ["whole-index equality across kernel configurations (first sentence) not covered",
                        "the simple scalar counterparts (find_newline_scalar etc., one-line iterator loops) are read as the definition rather than extracted",
                        "NEON kernels not covered; inputs up to isize::MAX bytes"],
    },
    "C17": {
        "level": "proof",
        "explanation": "Verus proves on the extracted text of both compact tables (AdvancePositions for node starts, CompactEndPositions "
                       "for the zero-filled ends), for tables of every size: advance_rank1, ib_select1_with_state (sampled start, masked "
                       "first word), get_sequential (advance-bit test, duplicate fast path, forward scan), advance_cursor_to, get_random and "
                       "get return exactly the answer the two bitmaps define -- the position of the (number of advance bits among nodes "
                       "0..=i, minus one)-th interest bit; None past the end or before the first advance -- for every node index and for EVERY "
                       "cursor value satisfying the cursor invariant; every value stored into the cursor cell satisfies the invariant "
                       "(InvCell model) and the cursor does not occur in the postcondition, so the answers cannot depend on the order or "
                       "repetition of earlier lookups. The builders are proved too: AdvancePositions::build_unchecked (with "
                       "build_cumulative_rank and build_select_samples) returns a table that satisfies the representation invariant and "
                       "answers exactly positions[i] for every node; CompactEndPositions::try_build returns None exactly when the recorded "
                       "(non-zero) ends are not non-decreasing and otherwise a table answering, for every node, None before the first "
                       "recorded end and else the last end recorded at or before the node (its own when it has one); the default cursor "
                       "stored at construction satisfies the invariant. Dense fallbacks are plain Vec indexing. Kani (thorough tier) runs "
                       "the real builder on 5 positions and one lookup from any invariant-satisfying cursor, for replayable counterexamples.",
        "trusted_base": COMMON_TRUST + ["Verus 0.2026.09.13 + Z3; InvCell model of core::cell::Cell",
                                        "seam R4: scan_select contract (unit c01_scan), select_in_word contract (Kani, C02)"],
        "assumptions": ["inputs of the builders: at most 2^30 nodes, text_len < 2^32 - 16, start positions non-decreasing and < text_len "
                        "(OpenPositions::build checks monotonicity and falls back to the dense Vec otherwise), ends <= text_len",
                        "OpenPositions / EndPositions enum wrappers ARE extracted (build chooses compact storage only under the builders' precondition, dense otherwise; get dispatches); the one-line monotonicity test `positions.windows(2).all(|w| w[0] <= w[1])` is a stub with that meaning; find_last_open_at_text_pos (reverse lookup, not named by the property) is not under contract",
                        "usize is 64 bits"],
    },
    "C04": {
        "level": "proof",
        "explanation": "Verus proves on the extracted text of the real functions, for vectors of every length: (build) build_bp_index -- the "
                       "L1 and L2 min-excess / block-excess arrays are the block folds of the level below, the rank directory (absolute L1 "
                       "counts, 9-bit packed L2 offsets, total with the final word masked) satisfies its invariant -- and build_l0_index "
                       "(entry k == min prefix excess / total excess of the valid bits of word k); lemma_fold_levels turns the fold form into "
                       "the bit-level meaning of all three levels. (rank side) rank1, rank1_slow, rank0, excess, select0, is_open/is_close, "
                       "first_child, total_zeros. (searches) find_close / find_close_from -- the seven-state L0/L1/L2 skipping loop returns "
                       "exactly the first position where the running excess reaches zero, None when it never does, termination included; the "
                       "free find_open and enclose backward scans (word skipping through the backward maximum) and the methods find_open, "
                       "enclose, parent, next_sibling, subtree_size built on them. (select) WithCsPoppy::build_with_rate establishes the "
                       "sample invariant for every rate and WithCsPoppy::select1 returns the position of the k-th open among the first len "
                       "bits, None iff k >= their number (sample bracket, rank_l1 search, rank_l2 offsets, in-word select). Kani proves "
                       "completely all word kernels and byte tables these use (find_unmatched_close_in_word, find_close_in_word, "
                       "word_min_excess*, word_max_excess_rev, every row of the BYTE_* tables, select_in_word). find_close_in_word_fast "
                       "is proved in Verus too (partial first byte, table-driven full bytes, bit fallback, partial last byte) with the "
                       "byte tables as stubs carrying the per-row contracts Kani proves, so no bounded contract is used by the search proofs.",
        "trusted_base": COMMON_TRUST + ["Verus 0.2026.09.13 + Z3; vstd specs; slice::partition_point stub with its documented contract",
                                        "seam R4 between Kani-proved kernel contracts and the Verus stubs; between unit c04_build (fold form) and c04_find (bit-level meaning via lemma_fold_levels)"],
        "assumptions": ["words.len() == ceil(len/64) and len <= u32::MAX (asserted by every constructor); searches: len <= 2^30 (i32 running excess); excess(p): len < 2^30",
                        "BalancedParens::new IS under contract (every array build_bp_index returns lands in the field the searches read, over the masked words; "
                        "mask_final_word_in_place is a stub with its meaning); new_with_select / from_words (packing BpSelectCtx) and the deprecated WithSelect variant "
                        "(SelectIndex::jump_to + scan_select, both under contract in C01) are not extracted; "
                        "storage W monomorphised to Vec<u64> (borrowed storage runs the same text); simd (SSE4.1/NEON) builders not covered"],
    },
    "C21": {
        "level": "proof",
        "explanation": "Verus proves on the extracted text of the real functions, for texts of every length: the index layer "
                       "(DsvIndexLightweight build_rank, markers/newlines rank1 and select1, row_count, the private CTZ select_in_word) against "
                       "the bit-level rank/select definitions, and on top of those contracts the whole navigation layer: "
                       "DsvCursor::{next_field,next_row,goto_row,current_field,at_newline}, DsvRow::{fields,get}, DsvRows::next and "
                       "DsvFields::next. The specification is the split the marker/newline bit-sets define (rows end at newline markers and a "
                       "final newline starts no row; fields end at markers; every field including empty ones is its raw byte range); "
                       "iteration yields exactly that sequence from every reachable iterator state, get(column) is its column-th entry and "
                       "goto_row(n) its n-th row start, so random access agrees with iteration. That the bit-sets are exactly the unquoted "
                       "delimiters/newlines of the text is C20. Texts that end with a delimiter and no record separator are the recorded "
                       "finding F1: they are excluded from the Verus contracts by the precondition no_f1 and checked against the property by a "
                       "concrete Kani obligation that is expected to fail.",
        "trusted_base": COMMON_TRUST + ["Verus 0.2026.09.13 + Z3; vstd specs of slices/Option/u64::trailing_zeros; slice::partition_point stub with its documented contract",
                                        "seam R4 between unit c21_index (proved) and the stubs of unit c21_cursor"],
        "assumptions": ["the index invariant dsv_wf is ESTABLISHED by the constructor DsvIndexLightweight::new (proved: rank arrays are the cumulative "
                        "popcounts of the stored words; its u32 assert holds) from: word vectors cover text_len bits, bits past text_len clear, "
                        "text_len <= u32::MAX. That the builders hand such vectors to `new`, and that every newline bit is a marker bit "
                        "(cursor precondition), is the C20 builder postcondition, linked by reading",
                        "Dsv/DsvRef::row and rows() wrappers (two-line compositions of goto_row / DsvRows::new) are not extracted"],
    },
    "C08": {
        "level": "proof",
        "explanation": "Verus proves, on the text of the real recursive-descent validator extracted from src/json/validate.rs on every "
                       "run (23 functions: peek/advance/skip_whitespace/skip_digits, validate_keyword, validate_number, "
                       "validate_unicode_escape, validate_escape, validate_utf8_char, validate_string, enter_nested, validate_value, "
                       "validate_array(_inner), validate_object(_inner), Validator::new, Validator::validate and the public free fn "
                       "validate), that each production function returns Ok exactly when the independent grammar function of the same "
                       "production (num_end, kw_end, esc_end incl. surrogate pairing, wf_len = Unicode Table 3-7, str_end, value_end / "
                       "arr_body / elems_end / obj_body / members_end with the 128-container cap) is defined at the current offset, and "
                       "then stops exactly at the offset that function gives; the top-level obligation is "
                       "`validate(input).is_ok() == json_text(input)` for every byte string (json_text = ws value ws covering the whole "
                       "input, nesting depth counted per open container, refused beyond 128). Every function also carries the position invariant "
                       "(line == 1 + number of LF / CR LF / CR terminators before the offset, column == 1 + bytes since the last one, the "
                       "offset never sits between a CR and its LF), so every Err returned -- including the rewound keyword position -- has "
                       "offset <= len and the line / column of that offset (third sentence of the property). Termination of the mutually recursive "
                       "validator is proved (lexicographic measure: remaining bytes, then call-graph rank). The grammar spec is checked "
                       "against concrete accept/reject documents by `by (compute)` so it is neither vacuous nor trivial.",
        "trusted_base": COMMON_TRUST + ["Verus 0.2026.09.13 + Z3", "the spec functions in verus/c08_validate.toml are the reading of RFC 8259 sections 2-7 and of Unicode Table 3-7 used as the oracle"],
        "assumptions": ["rule E1: error payloads dropped (`self.error(Kind{..})` -> position-only error); WHICH error kind is reported is not under contract",
                        "second sentence of the property (error offset not beyond the longest viable prefix) is NOT decided in general (recorded finding F8: it fails on \"\\uDC00\", shown by a concrete Kani harness on the real code plus a Verus lemma that the prefix is dead): it needs a constructive "
                        "completion argument for every viable prefix that was not built; for error positions only `offset <= len` and line/column == those of the offset are proved",
                        "line/column meaning used: terminators LF, CR LF (one), lone CR; columns count bytes (what Position documents)",
                        "keyword / number lookahead: the spec rejects `nullx` / `01` at the token (as the code does) instead of at the following "
                        "byte; both readings reject the same documents because no JSON text continues a literal with a letter or a number 0 with a digit",
                        "input.len() <= 2^62; usize is 64 bits",
                        "Iterator::position in skip_digits replaced by a stub with its documented meaning (R4)",
                        "the `succinctly json validate` CLI wrapper (file IO, exit codes) is not under contract"],
    },
    "C32": {
        "level": "proof",
        "explanation": "Verus proves on the extracted text of SimpleJsonIndex, for documents of every length: ib_rank1 / ib_select1 and "
                       "through them structural_index and structural_pos against the bit-level rank/select definitions of the interest "
                       "bits (the ordinal of the structural character at a position, the position of the k-th structural character; each "
                       "the inverse of the other); find_close(json, pos) == the first later structural position at which the bracket depth, "
                       "counted over the structural characters after the open, reaches -1, None when it never does (composition of "
                       "structural_index, BalancedParens::find_close and structural_pos, via a lemma that the BP excess over whole pairs is "
                       "twice the bracket depth of the text range and that the 11/00/01 pair encoding can only reach zero on the second bit "
                       "of a close pair); skip_value == the byte after the matching close / after the closing unescaped quote / after an "
                       "exactly spelled literal / after the maximal number-character run, None otherwise. The first clause of the property "
                       "(the index lists exactly the bracket, comma and colon bytes outside strings, in order) is the bit layer proved for "
                       "the builders under C05 (units c05_simple, c05_simple_sse2, run again by this check). A bounded Kani harness (every 9-word "
                       "interest bitmap, every position) re-checks ib_rank1 / structural_index on the compiled code and supplies replayable "
                       "counterexamples when a rewrite changes the loop structure the extraction is keyed to.",
        "trusted_base": COMMON_TRUST + ["Verus 0.2026.09.13 + Z3", "seam R4: BalancedParens::find_close contract (unit c04_find), scan_select (c01_scan), select_in_word (Kani C02)"],
        "assumptions": ["simple_wf is DERIVED end to end: unit c05_simple proves, on the real text of SimpleJsonIndex::build (runtime dispatcher -> AVX2 entry "
                        "point / SSE2 engine -> count_bp_bits -> BalancedParens::new), that the index it returns satisfies simple_wf_raw -- the very "
                        "spec fn the navigation unit assumes (shared through speclib_simplewf.rs) -- for every text up to 2^29 bytes. Stubs on that "
                        "path: the SSE2 builder's contract (proved in c05_simple_sse2), count_bp_bits (`iter().map(count_ones).sum() * 2`, iterator "
                        "adapters), BalancedParens::new (keeps the bits below len; its directories are unit c04_build), the cpuid macro (arbitrary)",
                        "validity of the document is not used: the statements hold for every byte string and coincide with the JSON reading "
                        "of 'matching bracket' and 'value extent' on valid documents (that coincidence relies on the RFC 8259 grammar and is not proved)",
                        "Children / StructuralPositions iterators and from_parts/build plumbing not extracted; W monomorphised to Vec<u64>"],
    },
}
FIX_COMMITS = ["2cec8d3", "1d237d0", "a3cef7a", "5751290"]
