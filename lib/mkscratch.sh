#!/bin/bash
# usage: mkscratch.sh <dest>   -- verbatim copy of /repo working tree + appended cfg(kani) modules
set -e
D=$1
mkdir -p $D
rsync -a --delete --exclude target --exclude .git /repo/ $D/repo/
for f in /verif/kani/*.rs; do
  b=$(basename $f .rs); p=$(echo $b | sed 's/__/\//g').rs
  cat $f >> $D/repo/$p
done
